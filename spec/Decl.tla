------------------------------- MODULE Decl -------------------------------
(***************************************************************************)
(* Abstract syntax of the item the derive is applied to, the documented     *)
(* DOMAIN of the derive (crate documentation "Requirements"; properties     *)
(* C11, C12, C14) and Rust's own rules for discriminants.                   *)
(*                                                                         *)
(* src == [item  : "enum" | "struct_unit" | "struct_tuple" | "struct_named" *)
(*                 | "union",                                               *)
(*         reprs : Seq(STRING),      one element per #[repr(..)] attribute,  *)
(*                                   the text between the parentheses;       *)
(*                                   "-" = #[repr] without arguments form     *)
(*         variants : Seq(Variant),                                          *)
(*         lim   : limits, see below                                          *)
(*         count : Nat]              > 0: a generated enum with `count`       *)
(*                                   implicit unit variants (variants = <<>>) *)
(* Variant == [id : STRING, field : STRING, dk : STRING, val : Int,          *)
(*             sp : STRING, name : Seq(Nat)]                                 *)
(*   field: "unit" | "tuple0" `A()` | "named0" `A{}` | "tuple1" | "named1"   *)
(*   dk   : "implicit" | "lit" (an optionally negated integer literal)        *)
(*          | one of OutKinds (expressions that are not a plain literal)      *)
(*   val  : the value the expression denotes (model coordinates)              *)
(*   sp   : spelling of a literal: dec hex oct bin sep suffix ...             *)
(*   name : code points of the variant's name after renaming                  *)
(***************************************************************************)
EXTENDS Integers, Sequences, FiniteSets, SequencesExt
\* src.lim == [tmin, tmax, i64min, i64max]: limits of the repr type and of i64 in model coordinates
\* (see Prim.tla; for types narrower than 64 bit the i64 limits lie beyond tmin / tmax)

PrimReprs == {"u8", "i8", "u16", "i16", "u32", "i32", "u64", "i64", "u128", "i128", "usize", "isize"}
MaxVariants == 65534

\* discriminant expressions that are valid Rust but not "(optionally negated) integer literal"
OutKindsValid == {"paren", "negparen", "dblneg", "not", "const", "assoc", "add", "shl", "cast", "block",
                  "byte", "charcast", "typemax", "constfn", "ifelse", "macro", "group"}
\* not even valid Rust
OutKindsInvalid == {"float"}
OutKinds == OutKindsValid \cup OutKindsInvalid

IsEnum(src)   == src.item = "enum"
NVariants(src) == IF src.count > 0 THEN src.count ELSE Len(src.variants)

\* Rust: the discriminant of each variant (only defined when every expression has a value)
RECURSIVE DiscUpTo(_, _)
DiscUpTo(vs, i) == IF vs[i].dk # "implicit" THEN vs[i].val
                   ELSE IF i = 1 THEN 0 ELSE DiscUpTo(vs, i - 1) + 1
CompilerDisc(src) == [i \in 1..Len(src.variants) |-> DiscUpTo(src.variants, i)]

\* ---- the documented domain (C11 / C12) --------------------------------------------------------
ReprOK(src)    == Len(src.reprs) = 1 /\ src.reprs[1] \in PrimReprs
FieldsOK(src)  == \A i \in 1..Len(src.variants) : src.variants[i].field = "unit"
ExprsOK(src)   == \A i \in 1..Len(src.variants) : src.variants[i].dk \in {"implicit", "lit"}
ValuesOK(src)  == src.count > 0 \/ \A i \in 1..Len(src.variants) :
                     LET d == CompilerDisc(src)[i] IN src.lim.i64min <= d /\ d <= src.lim.i64max
CountOK(src)   == 1 <= NVariants(src) /\ NVariants(src) <= MaxVariants
InDomain(src)  == IsEnum(src) /\ ReprOK(src) /\ FieldsOK(src) /\ ExprsOK(src) /\ CountOK(src) /\ ValuesOK(src)

\* ---- what rustc itself accepts without the derive (renderer guard; never a verdict) -------------
ReprRustOK(src) ==
  \/ src.reprs = <<>>
  \/ /\ IsEnum(src)
     /\ \A i \in 1..Len(src.reprs) : src.reprs[i] \in PrimReprs \cup {"C", "Rust", "u8, C", "C, u8", "align(2)", "-"}
     /\ Cardinality({src.reprs[i] : i \in 1..Len(src.reprs)} \cap PrimReprs) <= 1     \* conflicting / repeated int reprs: error or deny-lint
  \/ /\ ~IsEnum(src)
     /\ \A i \in 1..Len(src.reprs) : src.reprs[i] \in {"C", "Rust", "transparent", "align(2)", "packed", "-"}
RustValid(src) ==
  /\ ReprRustOK(src)
  /\ (IsEnum(src) /\ src.count = 0 =>
        /\ \A i \in 1..Len(src.variants) : src.variants[i].dk \notin OutKindsInvalid
        /\ \A i \in 1..Len(src.variants) : LET d == CompilerDisc(src)[i] IN src.lim.tmin <= d /\ d <= src.lim.tmax
        /\ \A i, j \in 1..Len(src.variants) : i # j => CompilerDisc(src)[i] # CompilerDisc(src)[j]
        \* custom discriminants on an enum that has a variant with fields need a repr: all corpus items have one
        /\ (src.variants = <<>> => src.reprs = <<>> \/ \A i \in 1..Len(src.reprs) : src.reprs[i] \notin PrimReprs))

\* ---- sorted(name) / sorted(value) (C14) ---------------------------------------------------------
RECURSIVE SeqLess(_, _)
SeqLess(a, b) == IF a = <<>> THEN b # <<>>
                 ELSE IF b = <<>> THEN FALSE
                 ELSE IF Head(a) # Head(b) THEN Head(a) < Head(b)
                 ELSE SeqLess(Tail(a), Tail(b))
ValueSorted(src) == \A i \in 1..(Len(src.variants) - 1) : CompilerDisc(src)[i] < CompilerDisc(src)[i + 1]
NameSorted(src)  == \A i \in 1..(Len(src.variants) - 1) : SeqLess(src.variants[i].name, src.variants[i + 1].name)
SortedOK(src, req) == ("value" \in req => ValueSorted(src)) /\ ("name" \in req => NameSorted(src))

\* shape facts used by Attr!Legal
Gapless(src) == src.count > 0 \/
                LET ds == {CompilerDisc(src)[i] : i \in 1..Len(src.variants)} IN
                \A d \in ds : d + 1 \in ds \/ \A e \in ds : e <= d
=============================================================================
