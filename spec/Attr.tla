------------------------------- MODULE Attr -------------------------------
(***************************************************************************)
(* Abstract syntax of the `enum_tools(...)` attributes and the DOCUMENTED   *)
(* catalogue of what is legal (crate documentation, lib.rs "Common          *)
(* parameter" .. "range"; properties C10 and C13).  Transcribed from the    *)
(* documentation, not from the parser.                                      *)
(*                                                                         *)
(* cfg == [attrs   : Seq(Seq(Entry)),        one inner sequence per          *)
(*                                            #[enum_tools(...)] attribute    *)
(*         varattr : [at : Nat, form : STRING]]   variant-level attribute     *)
(*                                            (at = 0: none)                  *)
(* Entry == [f : STRING, form : STRING, params : Seq(Param)]                 *)
(*          form: "path"  f            "list"  f(params)                      *)
(*                "nv"    f = "x"      "lit"   "x"        "path2"  a::f       *)
(* Param == [k : STRING, vk : STRING, v : STRING]                            *)
(*          vk:   "none"  k            "str"   k = "v"    "int"   k = 1       *)
(*                "bool"  k = true     "list"  k("v")     "path2" a::k = "v"  *)
(***************************************************************************)
EXTENDS Integers, Sequences, FiniteSets, SequencesExt

FnFeatures    == {"as_str", "from_str", "into", "MAX", "MIN", "next", "next_back", "try_from"}
TraitFeatures == {"Debug", "Display", "FromStr", "Into", "IntoStr", "TryFrom"}
IterFeatures  == {"iter", "names", "range"}
UserFeatures  == FnFeatures \cup TraitFeatures \cup IterFeatures
AllFeatures   == UserFeatures \cup {"sorted"}

\* documented parameters per feature
ParamsOf(f) ==
  CASE f \in {"as_str", "from_str"}  -> {"mode", "name", "vis"}
    [] f \in {"into", "MAX", "MIN", "next", "next_back", "try_from", "range"} -> {"name", "vis"}
    [] f = "FromStr"                 -> {"mode"}
    [] f \in {"Debug", "Display", "Into", "IntoStr", "TryFrom"} -> {}
    [] f = "iter"                    -> {"mode", "name", "vis", "struct_name"}
    [] f = "names"                   -> {"name", "vis", "struct_name"}
    [] f = "sorted"                  -> {"name", "value"}
    [] OTHER                         -> {}

\* documented mode values (lib.rs: as_str / from_str / FromStr / iter).  NOTE: the documentation of
\* `iter` lists "match"; it is part of the catalogue because the catalogue IS the documentation.
ModesOf(f) ==
  CASE f \in {"as_str", "from_str", "FromStr"} -> {"auto", "match", "table"}
    [] f = "iter" -> {"auto", "range", "next_and_back", "match", "table", "table_inline"}
    [] OTHER -> {}
VisValues == {"", "pub(crate)", "pub"}

\* value kind a parameter must have
KindOf(f, k) == IF f = "sorted" THEN "none" ELSE "str"

Entries(cfg) == UNION {{<<i, j>> : j \in 1..Len(cfg.attrs[i])} : i \in 1..Len(cfg.attrs)}
EntryAt(cfg, p) == cfg.attrs[p[1]][p[2]]
Has(cfg, f)  == \E p \in Entries(cfg) : EntryAt(cfg, p).f = f
EntryOf(cfg, f) == EntryAt(cfg, CHOOSE p \in Entries(cfg) : EntryAt(cfg, p).f = f)
ParamOf(e, k) == LET I == {i \in 1..Len(e.params) : e.params[i].k = k} IN
                 IF I = {} THEN [k |-> k, vk |-> "absent", v |-> ""] ELSE e.params[CHOOSE i \in I : TRUE]
ModeOf(cfg, f) == IF ~Has(cfg, f) THEN "absent"
                  ELSE LET p == ParamOf(EntryOf(cfg, f), "mode") IN IF p.vk = "absent" THEN "auto" ELSE p.v

IsIdentLike(s) == s # ""        \* names / struct names in the corpus are always valid identifiers or ""

EntryLegal(e) ==
  /\ e.f \in AllFeatures
  /\ e.form \in {"path", "list"}
  /\ (e.form = "path" => e.params = <<>>)
  /\ \A i \in 1..Len(e.params) :
       LET p == e.params[i] IN
       /\ p.k \in ParamsOf(e.f)
       /\ p.vk = KindOf(e.f, p.k)
       /\ \A j \in 1..Len(e.params) : j # i => e.params[j].k # p.k          \* no repeated parameter
       /\ (p.k = "mode" => p.v \in ModesOf(e.f))
       /\ (p.k = "vis"  => p.v \in VisValues)
       /\ (p.k \in {"name", "struct_name"} /\ e.f # "sorted" => IsIdentLike(p.v))

VarAttrLegal(va) == va.at = 0 \/ va.form = "rename_str"

\* C10 / C13: the documented catalogue.  gapless: the enum has no holes.
Legal(cfg, gapless) ==
  /\ \A p \in Entries(cfg) : EntryLegal(EntryAt(cfg, p))
  /\ \A p, q \in Entries(cfg) : p # q => EntryAt(cfg, p).f # EntryAt(cfg, q).f       \* no repeated feature
  /\ VarAttrLegal(cfg.varattr)
  /\ (Has(cfg, "range") => Has(cfg, "iter") /\ ModeOf(cfg, "iter") # "table_inline")
  /\ (ModeOf(cfg, "iter") = "range" => gapless)

\* the sorted(...) request of a configuration (C14); only meaningful for legal configurations
SortedReq(cfg) == IF ~Has(cfg, "sorted") THEN {}
                  ELSE {EntryOf(cfg, "sorted").params[i].k : i \in 1..Len(EntryOf(cfg, "sorted").params)}

\* ---- single-fault mutations of a legal configuration (C13) --------------------------------------
P(k, vk, v) == [k |-> k, vk |-> vk, v |-> v]
E(f, form, params) == [f |-> f, form |-> form, params |-> params]

\* replace entry p of cfg by entry e
WithEntry(cfg, p, e) == [cfg EXCEPT !.attrs[p[1]][p[2]] = e]
AddEntry(cfg, e)     == [cfg EXCEPT !.attrs[1] = Append(@, e)]
AddAttr(cfg, e)      == [cfg EXCEPT !.attrs = Append(@, <<e>>)]
AsList(e)            == [e EXCEPT !.form = "list"]
AddParam(e, p)       == [AsList(e) EXCEPT !.params = Append(@, p)]
SetParam(e, k, p)    == [AsList(e) EXCEPT !.params = Append(SelectSeq(@, LAMBDA x : x.k # k), p)]

\* strings that a laxer comparison (trimming, case folding, parsing as Rust syntax) would take for a documented value:
\* the documented values are exactly "", "pub", "pub(crate)" and the mode names, byte for byte
NearMissVis   == {"pub ", " pub", " ", "pub( crate )", "pub(in crate)", "PUB", "Pub", "pub(self)", "crate", "pub(crate) ", "pub (crate)", "public"}
NearMissModes == {"Table", "AUTO", " auto", "table ", "", "Match", "next-and-back", "tableinline"}

\* each mutation is [why |-> STRING, cfg |-> cfg]
EntryMutations(cfg, p) ==
  LET e == EntryAt(cfg, p) f == e.f IN
     {[why |-> "unknown parameter", cfg |-> WithEntry(cfg, p, AddParam(e, P("bogus", "str", "x")))],
      [why |-> "unknown bare parameter", cfg |-> WithEntry(cfg, p, AddParam(e, P("bogus", "none", "")))],
      [why |-> "duplicate feature, same attribute", cfg |-> AddEntry(cfg, E(f, "path", <<>>))],
      [why |-> "duplicate feature, other attribute", cfg |-> AddAttr(cfg, E(f, "path", <<>>))],
      [why |-> "feature = literal", cfg |-> WithEntry(cfg, p, E(f, "nv", <<>>))],
      [why |-> "path with ::", cfg |-> WithEntry(cfg, p, [e EXCEPT !.form = "path2", !.params = <<>>])]}
  \cup (IF "mode" \in ParamsOf(f) THEN
     {[why |-> "mode outside the documented list", cfg |-> WithEntry(cfg, p, SetParam(e, "mode", P("mode", "str", "fast")))],
      [why |-> "mode of another feature", cfg |-> WithEntry(cfg, p, SetParam(e, "mode", P("mode", "str", IF f = "iter" THEN "hash" ELSE "range")))],
      [why |-> "mode = integer", cfg |-> WithEntry(cfg, p, SetParam(e, "mode", P("mode", "int", "1")))],
      [why |-> "bare mode", cfg |-> WithEntry(cfg, p, SetParam(e, "mode", P("mode", "none", "")))],
      [why |-> "mode(list)", cfg |-> WithEntry(cfg, p, SetParam(e, "mode", P("mode", "list", "table")))],
      [why |-> "duplicate parameter", cfg |-> WithEntry(cfg, p, AddParam(SetParam(e, "mode", P("mode", "str", "auto")), P("mode", "str", "auto")))]}
       \cup {[why |-> "mode string that only resembles a documented one", cfg |-> WithEntry(cfg, p, SetParam(e, "mode", P("mode", "str", v)))] :
               v \in NearMissModes}
     ELSE {[why |-> "mode on a feature without modes", cfg |-> WithEntry(cfg, p, AddParam(e, P("mode", "str", "auto")))]})
  \cup (IF "vis" \in ParamsOf(f) THEN
     {[why |-> "vis outside the documented values", cfg |-> WithEntry(cfg, p, SetParam(e, "vis", P("vis", "str", "pub(super)")))],
      [why |-> "vis = private", cfg |-> WithEntry(cfg, p, SetParam(e, "vis", P("vis", "str", "private")))],
      [why |-> "vis = bool", cfg |-> WithEntry(cfg, p, SetParam(e, "vis", P("vis", "bool", "true")))],
      [why |-> "bare vis", cfg |-> WithEntry(cfg, p, SetParam(e, "vis", P("vis", "none", "")))],
      [why |-> "name = integer", cfg |-> WithEntry(cfg, p, SetParam(e, "name", P("name", "int", "1")))],
      [why |-> "bare name", cfg |-> WithEntry(cfg, p, SetParam(e, "name", P("name", "none", "")))],
      [why |-> "duplicate name", cfg |-> WithEntry(cfg, p, AddParam(SetParam(e, "name", P("name", "str", "nn1")), P("name", "str", "nn2")))]}
       \cup {[why |-> "vis string that only resembles a documented one", cfg |-> WithEntry(cfg, p, SetParam(e, "vis", P("vis", "str", v)))] :
               v \in NearMissVis}
     ELSE {[why |-> "name on a trait feature", cfg |-> WithEntry(cfg, p, AddParam(e, P("name", "str", "nn1")))],
           [why |-> "vis on a trait feature", cfg |-> WithEntry(cfg, p, AddParam(e, P("vis", "str", "pub")))]})
  \cup (IF "struct_name" \in ParamsOf(f) THEN
     {[why |-> "struct_name = integer", cfg |-> WithEntry(cfg, p, SetParam(e, "struct_name", P("struct_name", "int", "1")))],
      [why |-> "bare struct_name", cfg |-> WithEntry(cfg, p, SetParam(e, "struct_name", P("struct_name", "none", "")))]}
     ELSE {[why |-> "struct_name on a feature without struct", cfg |-> WithEntry(cfg, p, AddParam(e, P("struct_name", "str", "Sn1")))]})

GlobalMutations(cfg, gapless) ==
     {[why |-> "unknown feature", cfg |-> AddEntry(cfg, E("bogus", "path", <<>>))],
      [why |-> "unknown feature with parameters", cfg |-> AddEntry(cfg, E("as_string", "list", <<P("mode", "str", "auto")>>))],
      [why |-> "unknown feature in its own attribute", cfg |-> AddAttr(cfg, E("iterator", "path", <<>>))],
      [why |-> "literal instead of a feature", cfg |-> AddEntry(cfg, E("x", "lit", <<>>))],
      [why |-> "sorted with unknown key", cfg |-> AddEntry(cfg, E("sorted", "list", <<P("names", "none", "")>>))],
      [why |-> "sorted(name = ..)", cfg |-> AddEntry(cfg, E("sorted", "list", <<P("name", "str", "x")>>))]}
  \cup (IF ~Has(cfg, "sorted") THEN {} ELSE
     {[why |-> "duplicate sorted", cfg |-> AddAttr(cfg, E("sorted", "path", <<>>))]})
  \cup (IF Has(cfg, "iter") /\ ~Has(cfg, "range") THEN
     {[why |-> "range with iter in table_inline mode",
       cfg |-> AddEntry(WithEntry(cfg, CHOOSE p \in Entries(cfg) : EntryAt(cfg, p).f = "iter",
                                  SetParam(EntryOf(cfg, "iter"), "mode", P("mode", "str", "table_inline"))),
                        E("range", "path", <<>>))]} ELSE {})
  \cup (IF ~Has(cfg, "iter") /\ ~Has(cfg, "range") THEN
     {[why |-> "range without iter", cfg |-> AddEntry(cfg, E("range", "path", <<>>))]} ELSE {})
  \cup (IF Has(cfg, "iter") /\ ~gapless THEN
     {[why |-> "iter range mode on an enum with holes",
       cfg |-> WithEntry(cfg, CHOOSE p \in Entries(cfg) : EntryAt(cfg, p).f = "iter",
                         SetParam(EntryOf(cfg, "iter"), "mode", P("mode", "str", "range")))]} ELSE {})
  \cup {[why |-> "variant attribute: " \o frm, cfg |-> [cfg EXCEPT !.varattr = [at |-> 1, form |-> frm]]] :
          frm \in {"bare", "nv", "empty", "rename_list", "rename_int", "rename_path", "Rename", "two", "unknown",
                   \* a valid rename followed by a second, invalid attribute on the same variant
                   "after_rename_unknown", "after_rename_bare", "after_rename_int", "before_rename_unknown"}}

Mutations(cfg, gapless) == GlobalMutations(cfg, gapless) \cup UNION {EntryMutations(cfg, p) : p \in Entries(cfg)}
=============================================================================
