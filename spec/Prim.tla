------------------------------- MODULE Prim -------------------------------
(***************************************************************************)
(* A fixed-width primitive integer type, as the generated code uses it.    *)
(*                                                                         *)
(* TLC integers are 32-bit.  i8, u8, i16, u16 are modelled exactly.  The   *)
(* wider types are modelled in LANDMARK COORDINATES: the landmarks of a    *)
(* repr are the distinct values among                                      *)
(*     TMIN, max(TMIN, i64::MIN), 0, min(TMAX, i64::MAX), TMAX             *)
(* (thorough tier: also the powers of two inside the type).  Landmarks     *)
(* closer than 2W are merged into one cluster; a cluster [lo-W, hi+W]      *)
(* (clipped to the type) maps affinely with slope 1 into the model, the    *)
(* cluster containing 0 maps 0 to 0, consecutive clusters are separated by *)
(* a model gap, every value outside all clusters ("far") maps to ONE       *)
(* representative between its neighbouring clusters.  The map is an order  *)
(* embedding on windows, preserves +1/-1 inside a window and the wrap at   *)
(* both ends of the type.  It is implemented in tools/prim.py (stimuli:    *)
(* model -> real) and harness/rt (observations: real -> model) and         *)
(* round-trip tested by `setup`.                                           *)
(*                                                                         *)
(* TMin, TMax are the model coordinates of the type's limits.              *)
(***************************************************************************)
EXTENDS Integers
CONSTANTS TMin, TMax

T == TMin..TMax
WrapAdd1(x) == IF x = TMax THEN TMin ELSE x + 1        \* x.wrapping_add(1)
WrapSub1(x) == IF x = TMin THEN TMax ELSE x - 1        \* x.wrapping_sub(1)
\* overflow-checked `x + 1` / `x - 1` (debug builds panic) are written out at their use sites as
\* `IF x = TMax THEN Panic ELSE x + 1`: TLC cannot compare an integer with a non-integer sentinel
\* size of the type and modular arithmetic inside it (only meaningful for exactly modelled types)
Card == TMax - TMin + 1
Wrap(x) == ((x - TMin) % Card) + TMin                    \* reduce any integer into the type
WrapAdd(x, y) == Wrap(x + y)
WrapSub(x, y) == Wrap(x - y)
\* `x as unsigned-companion as usize`: the distance from TMin ... for an unsigned type identity,
\* for a signed type the two's complement reinterpretation
AsUnsigned(x) == IF TMin = 0 THEN x ELSE IF x >= 0 THEN x ELSE x + Card
=============================================================================
