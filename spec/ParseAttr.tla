----------------------------- MODULE ParseAttr -----------------------------
(***************************************************************************)
(* Implementation-shaped model of how the derive reads its configuration    *)
(* (src/parser/feature.rs, src/parser/params.rs, the `parse` function of    *)
(* every feature, src/generator/features.rs checks): which configurations   *)
(* produce an error.  Checked against the documented catalogue Attr!Legal    *)
(* by MC_ParseAttr on every case of the C10 / C13 generators:                *)
(*        no error  <=>  Legal                                               *)
(* with ONE named deviation: ImplIterModes lacks the documented iter mode    *)
(* "match" (finding F6).  Not an oracle for the code.                        *)
(*                                                                         *)
(* The parser keeps ONE map feature-name -> Params for all attributes        *)
(* (duplicates are detected on insertion, also across attributes); every     *)
(* feature's `parse` removes its entry and the parameters it knows;          *)
(* whatever is left over is reported by `finish` (unknown parameter /        *)
(* unknown feature).                                                         *)
(***************************************************************************)
EXTENDS Attr, TLC
CONSTANT IterMatchImplemented     \* FALSE = the code as it is (F6); TRUE = as documented

ImplModes(f) == CASE f \in {"as_str", "from_str", "FromStr"} -> {"auto", "match", "table"}
                  [] f = "iter" -> {"auto", "range", "next_and_back", "table", "table_inline"}
                                   \cup (IF IterMatchImplemented THEN {"match"} ELSE {})
                  [] OTHER -> {}
\* which parameters each feature's parse() consumes, and how
ConsumesVisName(f) == f \in {"as_str", "from_str", "into", "MAX", "MIN", "next", "next_back", "try_from", "iter", "names", "range"}
ConsumesMode(f)    == f \in {"as_str", "from_str", "FromStr", "iter"}
ConsumesStruct(f)  == f \in {"iter", "names"}
ConsumesBool(f)    == IF f = "sorted" THEN {"name", "value"} ELSE {}

\* --- FeatureParser::parse: errors while reading the attributes -------------------------------------
EntryReadErrors(e) ==
  (IF e.form \in {"nv", "lit"} THEN {"UnsupportedAttributeType"} ELSE {})
  \cup (IF e.form = "path2" THEN {"UnsupportedPath"} ELSE {})
  \cup (IF e.form = "list" THEN
          UNION {(IF e.params[i].vk = "list" THEN {"UnsupportedAttributeType"} ELSE {})
                 \cup (IF e.params[i].vk = "path2" THEN {"UnsupportedPath"} ELSE {})
                 \cup (IF \E j \in 1..(i - 1) : e.params[j].k = e.params[i].k /\ e.params[j].vk # "list" /\ e.params[i].vk # "list"
                       THEN {"DuplicateParameter"} ELSE {}) : i \in 1..Len(e.params)}
        ELSE {})
Flat(cfg) == LET idx == SetToSeq(Entries(cfg)) IN [i \in 1..Len(idx) |-> EntryAt(cfg, idx[i])]
ReadErrors(cfg) ==
  UNION {EntryReadErrors(EntryAt(cfg, p)) : p \in Entries(cfg)}
  \cup (IF \E p, q \in Entries(cfg) : p # q /\ EntryAt(cfg, p).f = EntryAt(cfg, q).f
                                      /\ EntryAt(cfg, p).form \in {"path", "list"} /\ EntryAt(cfg, q).form \in {"path", "list"}
        THEN {"DuplicateFeature"} ELSE {})

\* --- each feature's parse(): errors for the parameters of one (well-formed) entry --------------------
\* the LAST occurrence of a parameter wins in the map (HashMap::insert), kinds "list"/"path2" never get in
Kept(e) == SelectSeq(e.params, LAMBDA p : p.vk \notin {"list", "path2"})
LastOf(e, k) == LET q == Kept(e) I == {i \in 1..Len(q) : q[i].k = k} IN
                IF I = {} THEN [k |-> k, vk |-> "absent", v |-> ""] ELSE q[CHOOSE i \in I : \A j \in I : j <= i]
StrParamErrors(e, k) == LET p == LastOf(e, k) IN
                        IF p.vk = "absent" \/ p.vk = "str" THEN {} ELSE {"ExpectedLiteral"}
FeatureParseErrors(e) ==
  LET f == e.f
      known == (IF ConsumesVisName(f) THEN {"vis", "name"} ELSE {}) \cup (IF ConsumesMode(f) THEN {"mode"} ELSE {})
               \cup (IF ConsumesStruct(f) THEN {"struct_name"} ELSE {}) \cup ConsumesBool(f)
      q == Kept(e)
  IN (IF ConsumesVisName(f) THEN
        StrParamErrors(e, "name")
        \cup (LET p == LastOf(e, "vis") IN
              IF p.vk = "absent" THEN {} ELSE IF p.vk # "str" THEN {"ExpectedLiteral"}
              ELSE IF p.v \in {"", "pub(crate)", "pub"} THEN {} ELSE {"UnsupportedVisibility"})
      ELSE {})
     \cup (IF ConsumesMode(f) THEN
             StrParamErrors(e, "mode")
             \cup (LET p == LastOf(e, "mode") IN IF p.vk = "str" /\ p.v \notin ImplModes(f) THEN {"InvalidMode"} ELSE {})
           ELSE {})
     \cup (IF ConsumesStruct(f) THEN StrParamErrors(e, "struct_name") ELSE {})
     \cup UNION {(LET p == LastOf(e, k) IN IF p.vk \notin {"absent", "none"} THEN {"UnexpectedLiteral"} ELSE {}) : k \in ConsumesBool(f)}
     \cup (IF \E i \in 1..Len(q) : q[i].k \notin known THEN {"UnknownParameter"} ELSE {})          \* Params::finish

\* --- after parsing: leftovers and the checks of generator/features.rs ------------------------------------
WellFormed(cfg) == {p \in Entries(cfg) : EntryAt(cfg, p).form \in {"path", "list"}}
ParsedMode(cfg, f) ==
  LET ps == {p \in WellFormed(cfg) : EntryAt(cfg, p).f = f} IN
  IF ps = {} THEN "absent"
  ELSE LET e == EntryAt(cfg, CHOOSE p \in ps : TRUE) m == LastOf(e, "mode") IN
       IF m.vk = "str" /\ m.v \in ImplModes(f) THEN m.v ELSE "auto"
Enabled(cfg, f) == \E p \in WellFormed(cfg) : EntryAt(cfg, p).f = f
ResolveErrors(cfg, gapless) ==
  (IF Enabled(cfg, "range") /\ ~Enabled(cfg, "iter") THEN {"RangeRequiresIter"} ELSE {})
  \cup (IF Enabled(cfg, "range") /\ Enabled(cfg, "iter") /\ ParsedMode(cfg, "iter") = "table_inline" THEN {"RangeNotTableInline"} ELSE {})
  \cup (IF Enabled(cfg, "iter") /\ ParsedMode(cfg, "iter") = "range" /\ ~gapless THEN {"RangeModeNeedsGapless"} ELSE {})
VariantAttrErrors(va) == IF va.at = 0 \/ va.form = "rename_str" THEN {} ELSE {"UnsupportedAttributeType"}

ImplErrors(cfg, gapless) ==
  ReadErrors(cfg)
  \cup UNION {FeatureParseErrors(EntryAt(cfg, p)) : p \in {q \in WellFormed(cfg) : EntryAt(cfg, q).f \in AllFeatures}}
  \cup (IF \E p \in WellFormed(cfg) : EntryAt(cfg, p).f \notin AllFeatures THEN {"UnknownFeature"} ELSE {})   \* FeatureParser::finish
  \cup ResolveErrors(cfg, gapless)
  \cup VariantAttrErrors(cfg.varattr)
ImplAccepts(cfg, gapless) == ImplErrors(cfg, gapless) = {}
=============================================================================
