------------------------------ MODULE TraceRt ------------------------------
(***************************************************************************)
(* Trace specification (the judge) for the run-time items of a derived     *)
(* enum.  It reads an ndjson trace recorded from the REAL derive output    *)
(* (built from /repo by rustc, executed by the harness runner) and checks  *)
(* every event against the contract Abs / IterAbs.                         *)
(*                                                                         *)
(* Monitor style: every event is consumed (one TLC state per event); an    *)
(* event that the contract does not allow is printed as a "VIOL" line with *)
(* the properties it bears on, and the iterator it belongs to is marked    *)
(* desynchronised until the next it_new.  So one TLC run examines the      *)
(* whole trace.  Acceptance of the run = POSTCONDITION (all events were    *)
(* consumed); the verdict per property = absence of VIOL lines for it.     *)
(*                                                                         *)
(* Event kinds (all integers are model coordinates, see Prim.tla):         *)
(*  decl    case, grp, gprop, tmin, tmax, discs (ascending, as the COMPILER *)
(*          assigned them: `V as repr`), idents / renames (aligned; the     *)
(*          declaration text: identifier as written, rename attribute or    *)
(*          none -- the NAME is computed here, Abs!NameOf)                   *)
(*  call    fn, a, s, res, sig        one call of a pure item               *)
(*  it_new  slot, src, a, b, res, sig iter() / range(a,b) / names() into a slot *)
(*  it_op   slot, op, n, res, sig     next next_back nth nth_back len size_hint *)
(*                                    find rfind take_count rev_take_count take_last *)
(*                                    position rposition dyn_nth dyn_nth_back *)
(*  it_end  slot, op, n, res, sig     consuming operation                   *)
(*  par     threads, res, sig         a block of `threads` concurrent threads *)
(*                                    returned (or the process died in it); *)
(*                                    the events of thread k follow with      *)
(*                                    slot = k, thread by thread            *)
(*  compile_fail  case, grp, gprop, where, bare_ok, msg                     *)
(*                                                                         *)
(* Group (metamorphic) properties: consecutive cases with the same `grp`   *)
(* are variants of ONE abstract enum that must be observationally equal    *)
(* (other configuration: C09, other spelling: C11, other scope: C16, other *)
(* declaration order / repr: C18, renamed items: C15).  The judge compares   *)
(* with the first observation per call signature `sig`; a later observation *)
(* that differs is a violation of `gprop` -- independent of Abs.           *)
(* For speed the trace carries, per event, `ref` = the line of the first   *)
(* event with the same sig in the same group (0 = this is the first); the  *)
(* specification does not trust it: it checks that line ref lies in the    *)
(* current group and carries the same sig (else: malformed trace, a tool   *)
(* error, never a verdict) and then compares the two observations.         *)
(***************************************************************************)
EXTENDS Abs, IterAbs, TLC, Json, IOUtils

Rec == ndJsonDeserialize(IOEnv.TRACE)

VARIABLES l,      \* index of the next event
          D,      \* the abstract enum of the current case: disc -> name
          base,   \* Sorted(D)
          meta,   \* [case, grp, gprop] of the current case
          its,    \* the iterator slots of the current case: slot -> [alive, src, w]  (several iterators may be
                  \* alive at once and are operated alternately; operations on one never affect another)
          gst     \* current group: [start |-> line of its first event, ok |-> some member compiled]
vars == <<l, D, base, meta, its, gst>>

Slots == 0..3
NoIt == [alive |-> FALSE, src |-> "none", w |-> WEmpty]
NoIts == [k \in Slots |-> NoIt]

Init == /\ l = 1 /\ D = <<>> /\ base = <<>> /\ its = NoIts /\ gst = [start |-> 1, ok |-> FALSE]
        /\ meta = [case |-> -1, grp |-> "", gprop |-> ""]

\* ---------------------------------------------------------------------------
RECURSIVE BSearch(_, _, _, _)
BSearch(q, x, lo, hi) == IF lo > hi THEN 0
                         ELSE LET m == (lo + hi) \div 2 IN
                              IF q[m] = x THEN m ELSE IF q[m] < x THEN BSearch(q, x, m + 1, hi)
                              ELSE BSearch(q, x, lo, m - 1)
StrictlyAscending(q) == \A i \in 1..(Len(q) - 1) : q[i] < q[i + 1]

DeclOK(e) == /\ Len(e.discs) >= 1 /\ Len(e.discs) = Len(e.idents) /\ Len(e.discs) = Len(e.renames)
             /\ StrictlyAscending(e.discs)
             /\ e.tmin <= e.discs[1] /\ e.discs[Len(e.discs)] <= e.tmax
DeclOf(e) == LET S == {e.discs[i] : i \in 1..Len(e.discs)} IN
             [x \in S |-> LET i == BSearch(e.discs, x, 1, Len(e.discs)) IN NameOf(e.idents[i], e.renames[i])]

\* undefined behaviour made observable: "ub" = the process was killed by one of rustc's UB checks or
\* by Miri; "invalid" = a produced enum value is not a declared variant.  ("abort" = the process died
\* for another reason, e.g. allocation failure: an abnormal result of the item, not UB.)
IsUB(r) == r.k \in {"ub", "invalid"}

\* which property an item belongs to
CallProp(fn) ==
  CASE fn \in {"try_from", "try_from_t", "into", "into_t"}        -> "C01"
    [] fn \in {"as_str", "display", "debug", "into_str"}          -> "C03"
    [] fn \in {"from_str", "from_str_t"}                          -> "C04"
    [] fn \in {"min", "max", "next", "next_back"}                 -> "C05"
    [] fn \in {"zip"}                                             -> "C08"
SrcProp(src) == CASE src = "iter" -> "C06" [] src = "range" -> "C07" [] src = "names" -> "C08"

\* does the contract allow this call event?
CallOK(e) ==
  CASE e.fn \in {"try_from", "try_from_t"} -> Same(e.res, TryFrom(D, e.a))
    [] e.fn \in {"into", "into_t"}         -> Same(e.res, Into(D, e.a))
    [] e.fn \in {"as_str", "display", "debug", "into_str"} -> Same(e.res, AsStr(D, e.a))
    [] e.fn \in {"from_str", "from_str_t"} -> FromStrOK(D, e.s, e.res)
    [] e.fn = "min"       -> Same(e.res, MinOf(D))
    [] e.fn = "max"       -> Same(e.res, MaxOf(D))
    [] e.fn = "next"      -> Same(e.res, NextOf(D, e.a))
    [] e.fn = "next_back" -> Same(e.res, NextBackOf(D, e.a))
    [] e.fn = "zip"       -> Same(e.res, SeqObs([i \in 1..Len(base) |-> Pair(base[i], D[base[i]])]))
\* calls whose argument must be a declared variant (guaranteed by the harness)
ArgIsVariant(e) == e.fn \in {"into", "into_t", "as_str", "display", "debug", "into_str", "next", "next_back"}

\* iterator items as observations
Obs(src, it) == IF it.k = "none" THEN None
                ELSE IF src = "names" THEN Str(D[it.x]) ELSE Val(it.x)
ObsSeq(src, q) == SeqObs([i \in 1..Len(q) |-> Obs(src, IItem(q[i]))])

NewWindow(e) ==
  CASE e.src \in {"iter", "names"} -> [lo |-> 1, hi |-> Len(base)]
    [] e.src = "range" -> WNorm(Cardinality({x \in DOMAIN D : x < e.a}) + 1,
                                Cardinality({x \in DOMAIN D : x <= e.b}))

\* <<expected observation, next window>> of a non-consuming operation
OpStep(e) ==
  LET cur == its[e.slot] w == cur.w IN
  CASE e.op = "next"      -> LET r == WNext(base, w)     IN <<Obs(cur.src, r[1]), r[2]>>
    [] e.op = "next_back" -> LET r == WNextBack(base, w) IN <<Obs(cur.src, r[1]), r[2]>>
    [] e.op \in {"nth", "find", "dyn_nth"}            -> LET r == WNth(base, w, e.n) IN <<Obs(cur.src, r[1]), r[2]>>
    [] e.op \in {"nth_back", "rfind", "dyn_nth_back"} -> LET r == WNthBack(base, w, e.n) IN <<Obs(cur.src, r[1]), r[2]>>
    [] e.op = "position"  -> LET p == PosResult(WLen(w), e.n)  IN <<IF p < 0 THEN None ELSE Len_(p), WNth(base, w, e.n)[2]>>
    [] e.op = "rposition" -> LET p == RPosResult(WLen(w), e.n) IN <<IF p < 0 THEN None ELSE Len_(p), WNthBack(base, w, e.n)[2]>>
    [] e.op = "take_count"     -> LET r == WTakeCount(w, e.n)    IN <<Len_(r[1]), r[2]>>
    [] e.op = "rev_take_count" -> LET r == WRevTakeCount(w, e.n) IN <<Len_(r[1]), r[2]>>
    [] e.op = "take_last"      -> LET r == WTakeLast(base, w, e.n) IN <<Obs(cur.src, r[1]), r[2]>>
    [] e.op = "len"       -> <<Len_(WLen(w)), w>>
    [] e.op = "size_hint" -> <<Hint(WLen(w), WLen(w)), w>>

\* names are sequences of code points; `&str: Ord` is the lexicographic order of the UTF-8 bytes,
\* which is the lexicographic order of the code points
RECURSIVE CpLess(_, _)
CpLess(a, b) == IF b = <<>> THEN FALSE
                ELSE IF a = <<>> THEN TRUE
                ELSE IF a[1] # b[1] THEN a[1] < b[1]
                ELSE CpLess(Tail(a), Tail(b))
\* min / max of the remaining items: by discriminant order for iter / range (the lists are ascending),
\* by name order for names (equal names are the same observation, so the tie rule does not matter)
ItemMin(src, rest) ==
  IF src # "names" \/ rest = <<>> THEN ConsMin(rest)
  ELSE IItem(CHOOSE x \in {rest[i] : i \in 1..Len(rest)} : \A j \in 1..Len(rest) : ~CpLess(D[rest[j]], D[x]))
ItemMax(src, rest) ==
  IF src # "names" \/ rest = <<>> THEN ConsMax(rest)
  ELSE IItem(CHOOSE x \in {rest[i] : i \in 1..Len(rest)} : \A j \in 1..Len(rest) : ~CpLess(D[x], D[rest[j]]))

\* expected observation of a consuming operation
EndObs(e) ==
  LET cur == its[e.slot] rest == Win(base, cur.w.lo, cur.w.hi) IN
  CASE e.op \in {"fold", "collect", "for_each"} -> ObsSeq(cur.src, ConsCollect(rest))
    [] e.op \in {"rfold", "rev_collect"}        -> ObsSeq(cur.src, ConsRevCollect(rest))
    [] e.op = "last"     -> Obs(cur.src, ConsLast(rest))
    [] e.op = "count"    -> Len_(ConsCount(rest))
    [] e.op = "step_by"  -> ObsSeq(cur.src, ConsStepBy(rest, e.n))
    [] e.op = "skip"     -> ObsSeq(cur.src, ConsSkip(rest, e.n))
    [] e.op = "take"     -> ObsSeq(cur.src, ConsTake(rest, e.n))
    [] e.op = "rev_skip" -> ObsSeq(cur.src, ConsRevSkip(rest, e.n))
    [] e.op = "rev_nth"      -> Obs(cur.src, ConsRevNth(rest, e.n))
    [] e.op = "peek_collect" -> ObsSeq(cur.src, ConsCollect(rest))
    [] e.op = "max_by_key0"  -> Obs(cur.src, ConsLast(rest))          \* (the last of equal maxima)
    [] e.op = "min_by_key0"  -> Obs(cur.src, ConsFirst(rest))         \* (the first of equal minima)
    [] e.op = "partition"    -> LET q == ConsPartition(rest) IN ObsSeq(cur.src, [i \in 1..Len(q) |-> q[i][2]])
    [] e.op = "rev_len"      -> Len_(Len(rest))
    [] e.op = "skip_len"     -> Len_(ConsSkipLen(rest, e.n))
    [] e.op = "take_len"     -> Len_(ConsTakeLen(rest, e.n))
    [] e.op = "step_by_len"  -> Len_(ConsStepByLen(rest, e.n))
    [] e.op \in {"chain_hint", "zip_hint"} -> Hint(Len(rest), Len(rest))
    [] e.op = "min"      -> Obs(cur.src, ItemMin(cur.src, rest))
    [] e.op = "max"      -> Obs(cur.src, ItemMax(cur.src, rest))

Report(why, props, e) ==
  PrintT(<<"VIOL", ToJson([line |-> l, case |-> e.case, why |-> why, props |-> props, ev |-> e])>>)

\* metamorphic part: the set of properties violated ({} or {gprop})
\* (two abnormal results of the same kind are equal whatever their message)
SameObs(a, b) == a.k = b.k /\ (a.k \in {"panic", "abort", "ub", "invalid"} \/ a = b)
RefOK(e)    == e.ref = 0 \/ (e.ref >= gst.start /\ e.ref < l /\ Rec[e.ref].ev = e.ev /\ Rec[e.ref].sig = e.sig)
\* A different answer of from_str / FromStr for the same string in another member of the group also
\* violates C04 itself ("if several variants share a name the same one is returned in every mode").
MetaViol(e) == IF meta.gprop # "" /\ e.ref # 0
                  /\ ~SameObs(Rec[e.ref].res, e.res)
               THEN {meta.gprop} \cup (IF e.ev = "call" /\ meta.gprop = "C09" THEN
                                          (IF e.fn \in {"from_str", "from_str_t"} THEN {"C04"} ELSE {}) ELSE {})
               ELSE {}

Judge(e, absOK, prop) ==
  LET ub == IF IsUB(e.res) THEN {"C02"} ELSE {}
      ab == IF absOK THEN {} ELSE {prop}
      mt == MetaViol(e)
  IN  /\ Assert(RefOK(e), <<"malformed ref at line", l>>)
      /\ (ub # {} => Report("ub", ub, e))
      /\ (ab # {} => Report("abs", ab, e))
      /\ (mt # {} => Report("meta", mt, e))

Step ==
  /\ l <= Len(Rec)
  /\ l' = l + 1
  /\ LET e == Rec[l] IN
     CASE e.ev = "decl" ->
            /\ Assert(DeclOK(e), <<"malformed decl event at line", l>>)
            /\ D' = DeclOf(e) /\ base' = e.discs /\ its' = NoIts
            /\ meta' = [case |-> e.case, grp |-> e.grp, gprop |-> e.gprop]
            /\ gst' = IF e.grp = meta.grp /\ e.grp # "" THEN [gst EXCEPT !.ok = TRUE] ELSE [start |-> l, ok |-> TRUE]
       [] e.ev = "compile_fail" ->
            \* the derive output of this case did not compile (event written by the orchestrator from
            \* rustc's diagnostics).  where = "glue": an expected item is missing or has another
            \* signature (C19).  where = "decl": bare_ok tells whether the same declaration compiles
            \* with the derive but without any feature: yes -> the configuration is to blame (C10),
            \* no -> the declaration itself is not accepted (C11).  In a scope / renaming / order-and-repr
            \* group the group property is violated as well when an earlier member of the group compiled.
            /\ LET same == e.grp = meta.grp /\ e.grp # "" IN
               /\ Report("compile",
                         (IF e.where = "glue" THEN {"C19"} ELSE IF e.bare_ok THEN {"C10"} ELSE {"C11"})
                         \cup (IF e.gprop \in {"C15", "C16", "C18"} /\ same /\ gst.ok THEN {e.gprop} ELSE {}), e)
               /\ gst' = IF same THEN gst ELSE [start |-> l, ok |-> FALSE]
            /\ meta' = [case |-> e.case, grp |-> e.grp, gprop |-> e.gprop]
            /\ its' = NoIts /\ UNCHANGED <<D, base>>
       [] e.ev = "call" ->
            /\ Assert(ArgIsVariant(e) => e.a \in DOMAIN D, <<"argument is not a variant, line", l>>)
            /\ Judge(e, CallOK(e), CallProp(e.fn))
            /\ UNCHANGED <<D, base, meta, its, gst>>
       [] e.ev = "par" ->
            \* Concurrent threads, each with its own iterators (slot = thread) and its own calls.  The contract has no
            \* shared state: every thread's events must be what the contract allows for that thread alone, whatever
            \* the schedule was -- so the recorded per-thread sequences are judged one after the other.  The block
            \* itself must return (a process that dies inside it is reported by the orchestrator as ub / abort).
            /\ Judge(e, e.res.k = "ok", "C02")
            /\ its' = NoIts
            /\ UNCHANGED <<D, base, meta, gst>>
       [] e.ev = "it_new" ->
            /\ Assert(e.src = "range" => e.a \in DOMAIN D /\ e.b \in DOMAIN D, <<"range argument is not a variant, line", l>>)
            /\ Assert(e.slot \in Slots, <<"slot out of range, line", l>>)
            /\ Judge(e, e.res.k = "ok", SrcProp(e.src))
            /\ its' = [its EXCEPT ![e.slot] = [alive |-> e.res.k = "ok", src |-> e.src, w |-> NewWindow(e)]]
            /\ UNCHANGED <<D, base, meta, gst>>
       [] e.ev = "it_op" ->
            /\ Assert(e.slot \in Slots /\ its[e.slot].src # "none", <<"operation on a slot without iterator, line", l>>)
            /\ IF its[e.slot].alive
               THEN LET x == OpStep(e) ok == Same(e.res, x[1]) IN
                    /\ Judge(e, ok, SrcProp(its[e.slot].src))
                    /\ its' = IF ok THEN [its EXCEPT ![e.slot].w = x[2]] ELSE [its EXCEPT ![e.slot].alive = FALSE]
               ELSE /\ Judge(e, TRUE, SrcProp(its[e.slot].src))     \* desynchronised: only UB / metamorphic are judged
                    /\ UNCHANGED its
            /\ UNCHANGED <<D, base, meta, gst>>
       [] e.ev = "it_end" ->
            /\ Assert(e.slot \in Slots /\ its[e.slot].src # "none", <<"operation on a slot without iterator, line", l>>)
            /\ IF its[e.slot].alive THEN Judge(e, Same(e.res, EndObs(e)), SrcProp(its[e.slot].src))
                                    ELSE Judge(e, TRUE, SrcProp(its[e.slot].src))
            /\ its' = [its EXCEPT ![e.slot].alive = FALSE]
            /\ UNCHANGED <<D, base, meta, gst>>

Spec == Init /\ [][Step]_vars

\* every event of the trace was consumed (one state per event + the initial state)
Consumed == IF TLCGet("stats").diameter - 1 = Len(Rec) THEN PrintT(<<"CONSUMED", Len(Rec)>>)
            ELSE PrintT(<<"STUCK", TLCGet("stats").diameter, Rec[TLCGet("stats").diameter]>>) /\ FALSE
=============================================================================
