------------------------------ MODULE Surface ------------------------------
(***************************************************************************)
(* The documented SURFACE of a derived enum (properties C15 and, for the    *)
(* parts rustdoc shows, C19): which items exist, under which name, with     *)
(* which visibility, const-ness and kind.  Transcribed from the crate       *)
(* documentation ("Common parameter", "Dependencies", the per-feature       *)
(* signatures).                                                             *)
(*                                                                         *)
(* Visibilities are abstract: "private" (the defining module only), "up1",  *)
(* "up2" (restricted to the 1st / 2nd enclosing module), "crate", "public". *)
(* A case: [enumvis, cfg (Attr syntax), gapless].                           *)
(* An observation (from rustdoc JSON, i.e. from the compiler):              *)
(*   items   : set of [name, kind ("fn"|"const"), vis, isconst, sig] --      *)
(*             every item of every inherent impl of the enum; sig = the      *)
(*             shape of its (return) type: self | opt_self | prim | str |    *)
(*             struct:<name> | other                                         *)
(*   structs : set of [name, vis, traits] -- every other item of the module  *)
(*   traits  : set of trait names implemented for the enum (not synthetic,   *)
(*             not blanket), "From<E> for repr" and "From<E> for &str" are   *)
(*             recorded as "Into" and "IntoStr"                              *)
(***************************************************************************)
EXTENDS Attr, TLC, Json

VisOf(v, enumvis) == CASE v = "absent" -> enumvis [] v = "" -> "private" [] v = "pub(crate)" -> "crate" [] v = "pub" -> "public"
ItemFeatures == FnFeatures \cup IterFeatures
KindOfItem(f) == IF f \in {"MIN", "MAX"} THEN "const" ELSE "fn"
PV(e, k)      == LET p == ParamOf(e, k) IN IF p.vk = "absent" THEN "absent" ELSE p.v
NameOfItem(e) == IF PV(e, "name") = "absent" THEN e.f ELSE PV(e, "name")

StructName(c, f) == IF PV(EntryOf(c.cfg, f), "struct_name") = "absent" THEN (IF f = "iter" THEN "EIter" ELSE "ENames")
                    ELSE PV(EntryOf(c.cfg, f), "struct_name")
\* the documented (return) types (C19): MIN / MAX are constants of the enum type, into returns the primitive, next /
\* next_back / try_from / from_str return Option<Self>, as_str returns &'static str, iter / range return the iterator
\* struct of iter, names the one of names
SigOf(c, f) == CASE f \in {"MIN", "MAX"} -> "self" [] f = "into" -> "prim" [] f = "as_str" -> "str"
                 [] f \in {"next", "next_back", "try_from", "from_str"} -> "opt_self"
                 [] f \in {"iter", "range"} -> "struct:" \o StructName(c, "iter") [] f = "names" -> "struct:" \o StructName(c, "names")
\* the items the user asked for
UserItems(c) ==
  {[name |-> NameOfItem(EntryOf(c.cfg, f)), kind |-> KindOfItem(f), vis |-> VisOf(PV(EntryOf(c.cfg, f), "vis"), c.enumvis),
    isconst |-> f = "into", sig |-> SigOf(c, f)] : f \in {g \in ItemFeatures : Has(c.cfg, g)}}
IterTraits == {"Iterator", "DoubleEndedIterator", "ExactSizeIterator", "FusedIterator"}
UserStructs(c) ==
  {[name |-> StructName(c, f), vis |-> VisOf(PV(EntryOf(c.cfg, f), "vis"), c.enumvis), traits |-> IterTraits] :
     f \in {g \in {"iter", "names"} : Has(c.cfg, g)}}
UserTraits(c) == {"Clone", "Copy"} \cup {f \in TraitFeatures : Has(c.cfg, f)}

\* C15 (+ the rustdoc-visible part of C19): what an observation must satisfy
SurfaceOK(c, o) ==
  \* requested name, kind, visibility; const-ness where the documentation promises it (`into`).  An item that is
  \* `const` without such a promise still has its documented signature: it is not demanded to be non-const
  /\ \A u \in UserItems(c) : \E i \in o.items : i.name = u.name /\ i.kind = u.kind /\ i.vis = u.vis /\ (u.isconst => i.isconst)
  /\ \A i \in o.items : (\E u \in UserItems(c) : u.name = i.name) \/ i.vis = "private"      \* helpers stay private
  /\ \A i, j \in o.items : i.name = j.name => i = j
  /\ \A s \in UserStructs(c) : \E t \in o.structs : t.name = s.name /\ t.vis = s.vis /\ s.traits \subseteq t.traits
  /\ \A t \in o.structs : \E s \in UserStructs(c) : s.name = t.name                            \* nothing else is added to the module
  /\ o.traits = UserTraits(c)                                                                  \* nor to the enum's trait surface
\* C19 (the rustdoc-visible part): every requested item has the documented (return) type, whatever its name and visibility
SigOK(c, o) == \A u \in UserItems(c) : \A i \in o.items : i.name = u.name => i.sig = u.sig
=============================================================================
