------------------------------ MODULE GenCode ------------------------------
(***************************************************************************)
(* Implementation-shaped model of the GENERATED CODE of the pure items,     *)
(* per mode, over the emitted tables -- a transcription of the quote!       *)
(* blocks in src/feature/*.rs (as of the repaired tree), with explicit      *)
(* outcomes: a value, None, Panic (bounds / overflow check) or UB (a false  *)
(* assumption of an `unsafe` block).                                        *)
(*                                                                         *)
(* It is NOT the oracle (that is Abs).  It is checked against Abs by TLC    *)
(* for every non-empty set of discriminants of a complete small integer     *)
(* type (MC_GenCode: all 65535 subsets of a 4-bit type, signed and          *)
(* unsigned, every argument), which covers every wrap-around case; and it   *)
(* names the deviation of the pinned tree (OffsetPinned) so that the model  *)
(* reproduces findings F1/F2.                                               *)
(*                                                                         *)
(* S : the set of discriminants; D : S -> names; arithmetic in Prim.        *)
(***************************************************************************)
EXTENDS Abs, Prim

Panic     == [k |-> "panic"]
UB(why)   == [k |-> "ub", why |-> why]
CompileErr(why) == [k |-> "compile_error", why |-> why]

\* ---- what the parser computes (parser/mod.rs:56-86) ----------------------------------------
SortedS(S)  == SetToSortSeq(S, <)
MinKey(S)   == Min(S)
MaxKey(S)   == Max(S)
RunStarts(S) == SetToSortSeq({d \in S : d - 1 \notin S}, <)
RunEnd(S, b) == Max({e \in S : e >= b /\ \A x \in b..e : x \in S})
Runs(S)     == LET st == RunStarts(S) IN [k \in 1..Len(st) |-> <<st[k], RunEnd(S, st[k])>>]      \* value_ranges
IsGapless(S) == Len(Runs(S)) = 1
NumValues(S) == Cardinality(S)

\* ---- emitted tables --------------------------------------------------------------------------
TableEnum(S)     == SortedS(S)                                             \* __ENUM  (table_enum.rs)
TableName(S, D)  == LET s == SortedS(S) IN [i \in 1..Len(s) |-> D[s[i]]]   \* __NAME  (table_name.rs)
Before(S, k)     == Cardinality({d \in S : d < Runs(S)[k][1]})             \* `ofs` in table_range.rs
\* offset column of __RANGES (table_range.rs:36): `(b).wrapping_sub(ofs)`; the literal `ofs` wraps into the repr
Offset(S, k)     == WrapSub(Runs(S)[k][1], Wrap(Before(S, k)))
\* DEVIATION of the pinned tree (findings F1/F2): the tokens `-5i8.wrapping_sub(1i8)` parse as
\* -(5i8.wrapping_sub(1i8)); negating the type minimum is a const-evaluation error
CErr == TMax + 1000        \* sentinel (an integer outside the type): the constant does not compile
OffsetPinned(S, k) ==
  LET b == Runs(S)[k][1] o == Wrap(Before(S, k)) IN
  IF b >= 0 THEN WrapSub(b, o)
  ELSE IF b = TMin THEN CErr                     \* the literal 128i8 does not even exist; rustc: attempt to negate MIN
  ELSE LET m == WrapSub(-b, o) IN IF m = TMin THEN CErr ELSE -m
\* which offset expression the model uses (MC_GenCode overrides it to reproduce the findings)
CONSTANT UsePinnedOffset
Off(S, k) == IF UsePinnedOffset THEN OffsetPinned(S, k) ELSE Offset(S, k)
TablesCompile(S) == IsGapless(S) \/ \A k \in 1..Len(Runs(S)) : Off(S, k) # CErr

RunOf(S, v) == {k \in 1..Len(Runs(S)) : Runs(S)[k][1] <= v /\ v <= Runs(S)[k][2]}     \* `r.0.contains(&v)`
ToIndex(x)  == AsUnsigned(x)                       \* `as <unsigned companion> as usize`

\* unsafe primitives with their preconditions
Transmute(S, x) == IF x \in S THEN Val(x) ELSE UB("transmute: not a declared discriminant")

\* ---- try_from (try_from_fn.rs / try_from_trait.rs) ---------------------------------------------
ImplTryFrom(S, n) ==
  IF n >= MinKey(S) /\ n <= MaxKey(S)
  THEN IF IsGapless(S) THEN Transmute(S, n)
       ELSE IF RunOf(S, n) # {} THEN Transmute(S, n) ELSE None
  ELSE None

\* ---- MIN / MAX (min_const.rs, max_const.rs): first / last entry of the sorted values -----------
ImplMin(S) == Val(SortedS(S)[1])
ImplMax(S) == Val(SortedS(S)[Len(SortedS(S))])

\* ---- next / next_back (next_fn.rs, next_back_fn.rs) ----------------------------------------------
ImplNext(S, v) ==
  IF IsGapless(S)
  THEN IF v = MaxKey(S) THEN None
       ELSE IF v = TMax THEN Panic ELSE Transmute(S, v + 1)            \* `(self as repr) + 1`, overflow-checked
  ELSE IF RunOf(S, v) = {} THEN UB("unwrap_unchecked: no run contains the value")
       ELSE LET k == CHOOSE k \in RunOf(S, v) : TRUE
                c == WrapAdd1(v)
            IN IF Runs(S)[k][1] <= c /\ c <= Runs(S)[k][2] THEN Transmute(S, c)
               ELSE IF k < Len(Runs(S)) THEN Transmute(S, Runs(S)[k + 1][1]) ELSE None
ImplNextBack(S, v) ==
  IF IsGapless(S)
  THEN IF v = MinKey(S) THEN None
       ELSE IF v = TMin THEN Panic ELSE Transmute(S, v - 1)            \* `(self as repr) - 1`, overflow-checked
  ELSE IF RunOf(S, v) = {} THEN UB("unwrap_unchecked: no run contains the value")
       ELSE LET k == CHOOSE k \in RunOf(S, v) : TRUE
                c == WrapSub1(v)
            IN IF Runs(S)[k][1] <= c /\ c <= Runs(S)[k][2] THEN Transmute(S, c)
               ELSE IF k > 1 THEN Transmute(S, Runs(S)[k - 1][2]) ELSE None

\* ---- as_str (as_str_fn.rs) --------------------------------------------------------------------
Index(tab, i) == IF i + 1 \in DOMAIN tab THEN Str(tab[i + 1]) ELSE Panic        \* bounds-checked indexing
ImplAsStr(S, D, mode, v) ==
  CASE mode = "match" -> Str(D[v])
    [] mode = "table" ->
         IF IsGapless(S) THEN Index(TableName(S, D), ToIndex(WrapSub(v, MinKey(S))))
         ELSE IF RunOf(S, v) = {} THEN UB("unwrap_unchecked: no run contains the value")
              ELSE LET k == CHOOSE k \in RunOf(S, v) : TRUE IN
                   Index(TableName(S, D), ToIndex(WrapSub(v, Off(S, k))))

\* ---- from_str (from_str_fn.rs / from_str_trait.rs) -----------------------------------------------
FirstIndex(tab, s) == LET I == {i \in DOMAIN tab : tab[i] = s} IN IF I = {} THEN 0 ELSE Min(I)
ImplFromStr(S, D, mode, s) ==
  LET i == FirstIndex(TableName(S, D), s) IN           \* match: the first arm in value order wins
  IF i = 0 THEN None
  ELSE CASE mode = "match" -> Val(SortedS(S)[i])
         [] mode = "table" -> IF IsGapless(S) THEN Transmute(S, WrapAdd(Wrap(i - 1), MinKey(S)))
                              ELSE Val(TableEnum(S)[i])

\* ---- range(start, end): index computation (range_fn.rs) -----------------------------------------
\* [ok |-> TRUE, a |-> start_idx, b |-> end_idx], or [ok |-> FALSE]: assume_init of an unwritten MaybeUninit (UB)
RangeIdx(S, a, b) ==
  IF IsGapless(S) THEN [ok |-> TRUE, a |-> ToIndex(WrapSub(a, MinKey(S))), b |-> ToIndex(WrapSub(b, MinKey(S)))]
  ELSE IF RunOf(S, a) = {} \/ RunOf(S, b) = {} THEN [ok |-> FALSE]
       ELSE LET ka == CHOOSE k \in RunOf(S, a) : TRUE kb == CHOOSE k \in RunOf(S, b) : TRUE IN
            [ok |-> TRUE, a |-> ToIndex(WrapSub(a, Off(S, ka))), b |-> ToIndex(WrapSub(b, Off(S, kb)))]
\* the position of a variant in the sorted list, which is what the index is meant to be (0-based)
PosOf(S, v) == Cardinality({d \in S : d < v})
=============================================================================
