---------------------------- MODULE MC_IterAbs ----------------------------
(***************************************************************************)
(* Exhaustive exploration of the iterator contract over a list of N items. *)
(*  - theorems: window machine = sequence machine; fusedness (the empty    *)
(*    state is absorbing and a popping operation that returns None leaves   *)
(*    the iterator empty); exact size.                                      *)
(*  - its state graph (-dump dot,actionlabels) is the source of the         *)
(*    transition-covering operation paths replayed on the real iterators.   *)
(* Initial states: every window (a,b), i.e. every range(a,b) incl. a > b.   *)
(***************************************************************************)
EXTENDS IterAbs, TLC, FiniteSets
CONSTANTS N, Ks, Ks2

VARIABLES rest, w
vars == <<rest, w>>
base == [i \in 1..N |-> i]

Init == \E a, b \in 1..N : rest = Win(base, a, b) /\ w = WNorm(a, b)

\* (primes are written inside each action so that the dumped graph labels edges NextF, Nth(2), ...)
NextF    == rest' = OpNext(rest)[2]        /\ w' = WNext(base, w)[2]
NextB    == rest' = OpNextBack(rest)[2]    /\ w' = WNextBack(base, w)[2]
Nth(k)   == rest' = OpNth(rest, k)[2]      /\ w' = WNth(base, w, k)[2]
NthB(k)  == rest' = OpNthBack(rest, k)[2]  /\ w' = WNthBack(base, w, k)[2]
\* provided methods through by_ref() (Ks2: a smaller argument set keeps the graph small)
TakeC(k)  == rest' = OpTakeCount(rest, k)[2]    /\ w' = WTakeCount(w, k)[2]
RTakeC(k) == rest' = OpRevTakeCount(rest, k)[2] /\ w' = WRevTakeCount(w, k)[2]
TakeL(k)  == rest' = OpTakeLast(rest, k)[2]     /\ w' = WTakeLast(base, w, k)[2]
Find(k)   == rest' = OpFind(rest, k)[2]         /\ w' = WNth(base, w, k)[2]
RFind(k)  == rest' = OpRFind(rest, k)[2]        /\ w' = WNthBack(base, w, k)[2]
Next == NextF \/ NextB \/ (\E k \in Ks : Nth(k)) \/ (\E k \in Ks : NthB(k))
        \/ (\E k \in Ks2 : TakeC(k) \/ RTakeC(k) \/ TakeL(k) \/ Find(k) \/ RFind(k))
Spec == Init /\ [][Next]_vars

\* window representation agrees with the sequence machine, state and every result
WindowAgrees ==
  /\ rest = Win(base, w.lo, w.hi)
  /\ OpNext(rest)[1] = WNext(base, w)[1] /\ OpNextBack(rest)[1] = WNextBack(base, w)[1]
  /\ \A k \in Ks : OpNth(rest, k)[1] = WNth(base, w, k)[1] /\ OpNthBack(rest, k)[1] = WNthBack(base, w, k)[1]
  /\ ObsLen(rest) = WLen(w)
  /\ \A k \in Ks2 : /\ OpTakeCount(rest, k)[1] = WTakeCount(w, k)[1]
                    /\ OpRevTakeCount(rest, k)[1] = WRevTakeCount(w, k)[1]
                    /\ OpTakeLast(rest, k)[1] = WTakeLast(base, w, k)[1]
\* fused: once empty, always empty and every popping operation yields None
Fused ==
  /\ rest = <<>> => /\ OpNext(rest) = <<INone, <<>>>> /\ OpNextBack(rest) = <<INone, <<>>>>
                    /\ \A k \in Ks : OpNth(rest, k) = <<INone, <<>>>> /\ OpNthBack(rest, k) = <<INone, <<>>>>
  /\ \A k \in Ks : (OpNth(rest, k)[1] = INone => OpNth(rest, k)[2] = <<>>)
                /\ (OpNthBack(rest, k)[1] = INone => OpNthBack(rest, k)[2] = <<>>)
  /\ (OpNext(rest)[1] = INone => rest = <<>>) /\ (OpNextBack(rest)[1] = INone => rest = <<>>)
\* exact size: len = number of items still to come, from either end; nth(0) = next
ExactSize ==
  /\ ObsSizeHint(rest) = <<ObsLen(rest), ObsLen(rest)>>
  /\ ConsCount(rest) = ObsLen(rest)
  /\ OpNth(rest, 0) = OpNext(rest) /\ OpNthBack(rest, 0) = OpNextBack(rest)
  /\ ConsRevCollect(ConsRevCollect(rest)) = ConsCollect(rest)
  /\ (rest # <<>> => ConsLast(rest) = OpNextBack(rest)[1])
\* the provided methods are what repeated `next` / `next_back` give (this is how core builds them)
RECURSIVE Pops(_, _, _)
Pops(r, m, back) == IF m = 0 THEN r ELSE Pops(IF back THEN OpNextBack(r)[2] ELSE OpNext(r)[2], m - 1, back)
Provided ==
  \A k \in Ks2 : LET m == MinNat(k, Len(rest)) IN
     /\ OpTakeCount(rest, k) = <<m, Pops(rest, m, FALSE)>>
     /\ OpRevTakeCount(rest, k) = <<m, Pops(rest, m, TRUE)>>
     /\ OpTakeLast(rest, k)[2] = Pops(rest, m, FALSE)
     /\ (m > 0 => OpTakeLast(rest, k)[1] = OpNext(Pops(rest, m - 1, FALSE))[1])
     /\ OpFind(rest, k) = (IF k >= Len(rest) THEN <<INone, <<>>>> ELSE OpNext(Pops(rest, k, FALSE)))
     /\ OpRFind(rest, k) = (IF k >= Len(rest) THEN <<INone, <<>>>> ELSE OpNextBack(Pops(rest, k, TRUE)))
\* lengths only shrink (action property)
Shrinks == [][Len(rest') <= Len(rest)]_vars
=============================================================================
