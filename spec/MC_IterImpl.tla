---------------------------- MODULE MC_IterImpl ----------------------------
(***************************************************************************)
(* Refinement check  IterImpl => IterAbs : for every enum over U, every     *)
(* representation the shape allows, iter() and every range(a, b), every     *)
(* sequence of next / next_back / nth(k) / nth_back(k): each result equals  *)
(* the contract's, len is exact, no panic, no UB, and the representation    *)
(* always stands for the contract's remaining list.                         *)
(***************************************************************************)
EXTENDS IterImpl, TLC
CONSTANTS U, MaxCard, Ks, PinnedTable

VARIABLES s, st, rest, ok
vars == <<s, st, rest, ok>>

Distinct(S) == [d \in S |-> <<d>>]
ModesFor(S, ranged) ==
  IF IsGapless(S) THEN {"range", "nab", "table"} \cup (IF ranged THEN {} ELSE {"inline"})
  ELSE {"nab", "table"} \cup (IF ranged THEN {} ELSE {"inline"})
Init ==
  /\ s \in {x \in SUBSET U : x # {} /\ Cardinality(x) <= MaxCard}
  /\ ok = TRUE
  /\ \/ \E m \in ModesFor(s, FALSE) : st = NewIter(s, m) /\ rest = IterList(Distinct(s))
     \/ \E m \in ModesFor(s, TRUE), a \in s, b \in s :
          /\ st = IF m = "table" /\ PinnedTable THEN NewRangeTablePinned(s, a, b) ELSE NewRange(s, m, a, b)
          /\ rest = RangeList(Distinct(s), a, b)

Item(o) == IF o.k = "val" THEN IItem(o.v) ELSE IF o.k = "none" THEN INone ELSE [k |-> o.k]
Do(impl, abs) == /\ st' = impl[2] /\ rest' = abs[2] /\ ok' = (Item(impl[1]) = abs[1])
Alive == st.m \in {"range", "nab", "table"}
NextF   == Alive /\ Do(StepNext(s, st), OpNext(rest)) /\ UNCHANGED s
NextB   == Alive /\ Do(StepBack(s, st), OpNextBack(rest)) /\ UNCHANGED s
Nth(k)  == Alive /\ Do(StepNth(s, st, k), OpNth(rest, k)) /\ UNCHANGED s
NthB(k) == Alive /\ Do(StepNthBack(s, st, k), OpNthBack(rest, k)) /\ UNCHANGED s
Next == NextF \/ NextB \/ (\E k \in Ks : Nth(k)) \/ (\E k \in Ks : NthB(k))
Spec == Init /\ [][Next]_vars

ConstructorOK == st.m \notin {"panic", "ub"}                       \* C07: never panics, C02: InitOK
ResultsAgree  == ok
Refines       == Alive => AbsRest(s, st) = rest /\ ImplLen(st) = Len(rest)
=============================================================================
