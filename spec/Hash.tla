-------------------------------- MODULE Hash --------------------------------
(***************************************************************************)
(* C17 at design level.  The only per-process state of the derive is the    *)
(* iteration order of its three HashMaps (values in parser/values.rs,       *)
(* features in parser/feature.rs, parameters in parser/params.rs; each      *)
(* process gets fresh RandomState keys).  The model makes that order an     *)
(* explicit nondeterministic choice `perm` and states what the code does    *)
(* with each map:                                                            *)
(*   values   : collected from the map in `perm` order, then SORTED BY KEY    *)
(*              (keys are unique) -> the generator sees one fixed sequence    *)
(*   features / parameters : looked up BY NAME (remove), never iterated for   *)
(*              output; iterated only to REPORT leftovers (error order may    *)
(*              vary, the set of errors may not)                              *)
(* Property: the sequence handed to the generator and the SET of errors are   *)
(* the same for every perm.  `SkipSort` is the negative control (a seeded     *)
(* change skipped the sort when sorted(value) was requested).                 *)
(***************************************************************************)
EXTENDS Integers, Sequences, FiniteSets, SequencesExt, TLC
CONSTANTS Keys,        \* discriminants in the map
          Leftovers,   \* names of unknown features / parameters left in the maps
          SkipSort

Perms(S) == {p \in [1..Cardinality(S) -> S] : \A i, j \in 1..Cardinality(S) : i # j => p[i] # p[j]}
VARIABLES perm, lperm
Init == perm \in Perms(Keys) /\ lperm \in Perms(Leftovers)
Spec == Init /\ [][UNCHANGED <<perm, lperm>>]_<<perm, lperm>>

\* values.iter().collect() in hash order, then sort_by_key
Collected == IF SkipSort THEN perm ELSE SortSeq(perm, <)
\* FeatureParser::finish / Params::finish: one error per leftover, in hash order
ErrorSeq == [i \in 1..Len(lperm) |-> <<"unknown", lperm[i]>>]
ErrorSet == {ErrorSeq[i] : i \in 1..Len(ErrorSeq)}

Canonical == SetToSortSeq(Keys, <)
Deterministic == Collected = Canonical /\ ErrorSet = {<<"unknown", x>> : x \in Leftovers}
=============================================================================
