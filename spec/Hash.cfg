SPECIFICATION Spec
CONSTANTS Keys = {1, 2, 3, 5, 8}
 Leftovers = {"bogus", "mode2", "x"}
 SkipSort = FALSE
INVARIANT Deterministic
CHECK_DEADLOCK FALSE
