------------------------------ MODULE CfgCover ------------------------------
(***************************************************************************)
(* Combinatorial coverage of the CONFIGURATION space, generated from the   *)
(* resolution model.  Which code an item gets depends on its own mode, on   *)
(* the shape (gapless / holes, small) and -- through the dependency          *)
(* resolution and the auto rules -- on which other features are enabled.     *)
(* Slips in that plumbing need a particular small set of co-enabled          *)
(* features ("as_str reaches table mode through names and nothing enables    *)
(* MIN"); they hide in big configurations, where some other feature happens  *)
(* to enable what was forgotten.                                             *)
(*                                                                         *)
(* This module enumerates EVERY legal configuration with at most MaxUser    *)
(* user features (t-wise coverage, t = MaxUser) in every combination of      *)
(* their modes, on every shape class, together with the outcome the          *)
(* resolution model predicts (Resolve!Resolved).  Each becomes a case of the *)
(* run-time corpus (tools/corpus_rt.py: pairwise).  The predicted outcome is *)
(* used for coverage accounting only -- never as an oracle.                  *)
(***************************************************************************)
EXTENDS Resolve, Json, Sequences, SequencesExt
CONSTANT MaxUser

CInit == /\ user \in {u \in SUBSET UserF : u # {} /\ Cardinality(u) <= MaxUser}
         /\ gapless \in BOOLEAN /\ small \in BOOLEAN
         /\ am \in (IF "as_str"   \in user THEN StrModes ELSE {"auto"})
         /\ fm \in (IF "from_str" \in user THEN StrModes ELSE {"auto"})
         /\ tm \in (IF "FromStr"  \in user THEN StrModes ELSE {"auto"})
         /\ im \in (IF "iter"     \in user THEN IterModes ELSE {"auto"})
CSpec == CInit /\ [][Next]_vars

\* `small` is read by the auto rule of iter on enums with holes only: elsewhere one value is enough
SmallMatters == ~gapless /\ "iter" \in user /\ im = "auto"
Wanted == Legal /\ (small => SmallMatters)

Emit == Wanted => PrintT(<<"CFG", ToJson([user |-> SetToSeq(user), am |-> am, fm |-> fm, tm |-> tm, im |-> im,
                                         gapless |-> gapless, small |-> small,
                                         en |-> SetToSeq(Resolved.en), ram |-> Resolved.am, rfm |-> Resolved.fm,
                                         rtm |-> Resolved.tm, rim |-> Resolved.im, off |-> Resolved.off])>>)
\* the model's own theorems hold on the emitted configurations
Sane == Wanted => LET r == Resolved IN ~r.abort /\ ModesResolved(r) /\ Closed(r)
=============================================================================
