------------------------------- MODULE Abs -------------------------------
(***************************************************************************)
(* The contract of a derived enum: one abstract, mode-free, table-free     *)
(* description of the observable behaviour of every generated item.        *)
(*                                                                         *)
(* It is a transcription of the property statements (C01..C08) and of the  *)
(* crate documentation, never of the code.  It is the only oracle used by  *)
(* the run-time trace specification (TraceRt) and by the design-level      *)
(* checks of the implementation-shaped models (GenCode, IterImpl).         *)
(*                                                                         *)
(* A derived enum is abstracted to  D \in [S -> Name]  where S is a finite *)
(* non-empty set of integers (the discriminants, in model coordinates, see *)
(* Prim.tla) and Name is a sequence of Unicode code points (the rename     *)
(* string when present, otherwise the identifier).                         *)
(*                                                                         *)
(* Every observation is a tagged record so that values of different kinds  *)
(* are never compared directly (TLC raises an error instead of FALSE when  *)
(* it compares an integer with a string).                                  *)
(***************************************************************************)
EXTENDS Integers, Sequences, FiniteSets, FiniteSetsExt, SequencesExt

\* ---- observations ------------------------------------------------------
None      == [k |-> "none"]
Val(x)    == [k |-> "val", v |-> x]
Str(s)    == [k |-> "str", s |-> s]
Len_(n)   == [k |-> "len", n |-> n]
Hint(a,b) == [k |-> "hint", lo |-> a, hi |-> b]      \* size_hint: (a, Some(b))
SeqObs(q)  == [k |-> "seq", q |-> q]                   \* a collected list of observations
Pair(x,s) == [k |-> "pair", v |-> x, s |-> s]

\* Equality of two observations, tag first, payload only between equal tags.
Same(r, e) ==
  /\ r.k = e.k
  /\ CASE e.k = "none" -> TRUE
       [] e.k = "val"  -> r.v = e.v
       [] e.k = "str"  -> r.s = e.s
       [] e.k = "len"  -> r.n = e.n
       [] e.k = "hint" -> r.lo = e.lo /\ r.hi = e.hi
       [] e.k = "pair" -> r.v = e.v /\ r.s = e.s
       [] e.k = "seq"  -> /\ Len(r.q) = Len(e.q)
                          /\ \A i \in 1..Len(e.q) :
                               /\ r.q[i].k = e.q[i].k
                               /\ CASE e.q[i].k = "val"  -> r.q[i].v = e.q[i].v
                                    [] e.q[i].k = "str"  -> r.q[i].s = e.q[i].s
                                    [] e.q[i].k = "pair" -> r.q[i].v = e.q[i].v /\ r.q[i].s = e.q[i].s
                                    [] OTHER -> FALSE
       [] OTHER -> FALSE

\* ---- the name of a variant (C03) ----------------------------------------
\* "the string given by its rename attribute if present, otherwise its identifier".  An identifier
\* written in raw form (r#type) IS the identifier `type`: `r#` is lexical escaping, not part of the
\* name (std's derive(Debug) prints "type").  ident: code points as written; rename: None-like
\* [k |-> "none"] or [k |-> "some", s |-> code points].
RawPrefix   == <<114, 35>>                              \* r#
Unraw(id)   == IF Len(id) > 2 /\ SubSeq(id, 1, 2) = RawPrefix THEN SubSeq(id, 3, Len(id)) ELSE id
NameOf(ident, rename) == IF rename.k = "some" THEN rename.s ELSE Unraw(ident)

\* ---- the abstract enum --------------------------------------------------
Discs(D)   == DOMAIN D
Sorted(D)  == SetToSortSeq(DOMAIN D, <)              \* all variants, ascending by discriminant

\* C01  try_from / TryFrom / into / Into
TryFrom(D, n) == IF n \in DOMAIN D THEN Val(n) ELSE None
Into(D, v)    == Val(v)

\* C03  as_str / Display / Debug / IntoStr
AsStr(D, v)   == Str(D[v])

\* C04  from_str / FromStr : the set of acceptable answers for string s
Holders(D, s) == {v \in DOMAIN D : D[v] = s}
FromStrOK(D, s, r) == IF Holders(D, s) = {} THEN r.k = "none"
                      ELSE r.k = "val" /\ r.v \in Holders(D, s)

\* C05  MIN / MAX / next / next_back  (discriminant order)
MinOf(D) == Val(Min(DOMAIN D))
MaxOf(D) == Val(Max(DOMAIN D))
NextOf(D, v) == LET G == {x \in DOMAIN D : x > v} IN IF G = {} THEN None ELSE Val(Min(G))
NextBackOf(D, v) == LET G == {x \in DOMAIN D : x < v} IN IF G = {} THEN None ELSE Val(Max(G))

\* C06/C07/C08  the lists behind the three iterators
IterList(D)        == Sorted(D)
RangeList(D, a, b) == SelectSeq(Sorted(D), LAMBDA x : a <= x /\ x <= b)
NamesList(D)       == LET s == Sorted(D) IN [i \in 1..Len(s) |-> D[s[i]]]

\* ---- theorems of the contract (checked by TLC in MC_Abs) -----------------
\* next_back(next(v)) = v ; following next from MIN visits every variant once, ascending
Thm_NextInverse(D) == \A v \in DOMAIN D : NextOf(D, v).k = "val" => NextBackOf(D, NextOf(D, v).v) = Val(v)
RECURSIVE Chain(_, _)
Chain(D, v) == IF NextOf(D, v).k = "none" THEN <<v>> ELSE <<v>> \o Chain(D, NextOf(D, v).v)
Thm_Chain(D)       == Chain(D, MinOf(D).v) = Sorted(D)
Thm_NextNoneIffMax(D) == \A v \in DOMAIN D : (NextOf(D, v).k = "none") <=> (Val(v) = MaxOf(D))
Thm_BackNoneIffMin(D) == \A v \in DOMAIN D : (NextBackOf(D, v).k = "none") <=> (Val(v) = MinOf(D))
Thm_RoundTrip(D, T)   == \A n \in T : LET r == TryFrom(D, n) IN
                            (r.k = "val" => Into(D, r.v) = Val(n)) /\ (r.k = "none" <=> n \notin DOMAIN D)
Thm_RangeEmpty(D)     == \A a, b \in DOMAIN D : a > b => RangeList(D, a, b) = <<>>
Thm_RangeFull(D)      == RangeList(D, MinOf(D).v, MaxOf(D).v) = IterList(D)
=============================================================================
