--------------------------- MODULE MC_IterMulti ---------------------------
(***************************************************************************)
(* Several iterators of one enum alive AT THE SAME TIME, operated          *)
(* alternately.  The contract: an iterator is a value -- its state is its   *)
(* own remaining sequence and nothing else, so an operation on one iterator *)
(* never changes what another one yields.  (The generated code has no       *)
(* shared mutable state today; a cache, a static cursor or a lazily filled  *)
(* table would break exactly this.)                                         *)
(*                                                                         *)
(* State: one window per slot over the same list of N items.               *)
(*  - Independent (action property): a step changes at most the slot it     *)
(*    names, and its result is a function of that slot's window alone       *)
(*  - Commute (invariant): operations on different slots commute -- results *)
(*    and final state do not depend on the interleaving                     *)
(*  - the dumped state graph (product of the single-iterator graphs) yields *)
(*    transition-covering INTERLEAVINGS that are replayed on real iterators *)
(*    (tools/stimuli.py: multi_paths)                                       *)
(***************************************************************************)
EXTENDS IterAbs, TLC, FiniteSets
CONSTANTS N, Ks, NSlots

VARIABLES ws
vars == <<ws>>
base == [i \in 1..N |-> i]
Slot == 1..NSlots

Init == ws = [s \in Slot |-> WNorm(1, N)]

\* (primes are written inside each action so that the dumped graph labels edges NextF(1), Nth(2, 1), ...)
NextF(s)   == ws' = [ws EXCEPT ![s] = WNext(base, ws[s])[2]]
NextB(s)   == ws' = [ws EXCEPT ![s] = WNextBack(base, ws[s])[2]]
Nth(s, k)  == ws' = [ws EXCEPT ![s] = WNth(base, ws[s], k)[2]]
NthB(s, k) == ws' = [ws EXCEPT ![s] = WNthBack(base, ws[s], k)[2]]
Next == \E s \in Slot : NextF(s) \/ NextB(s) \/ (\E k \in Ks : Nth(s, k) \/ NthB(s, k))
Spec == Init /\ [][Next]_vars

\* one operation as a function: <<result, window'>>
Ops == {<<"next", 0>>, <<"next_back", 0>>} \cup {<<"nth", k>> : k \in Ks} \cup {<<"nth_back", k>> : k \in Ks}
Apply(w, o) == CASE o[1] = "next" -> WNext(base, w) [] o[1] = "next_back" -> WNextBack(base, w)
                 [] o[1] = "nth" -> WNth(base, w, o[2]) [] o[1] = "nth_back" -> WNthBack(base, w, o[2])

\* a step changes at most one slot
Independent == [][Cardinality({s \in Slot : ws'[s] # ws[s]}) <= 1]_vars
\* operations on different slots commute: both orders give the same two results and the same state
Commute ==
  \A a, b \in Slot : a # b =>
    \A o1, o2 \in Ops :
      LET r1 == Apply(ws[a], o1)  w1 == [ws EXCEPT ![a] = r1[2]]  r12 == Apply(w1[b], o2)
          r2 == Apply(ws[b], o2)  w2 == [ws EXCEPT ![b] = r2[2]]  r21 == Apply(w2[a], o1)
      IN  /\ r12[1] = r2[1] /\ r21[1] = r1[1]
          /\ [w1 EXCEPT ![b] = r12[2]] = [w2 EXCEPT ![a] = r21[2]]
=============================================================================
