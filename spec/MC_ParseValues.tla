--------------------------- MODULE MC_ParseValues ---------------------------
(***************************************************************************)
(* All declarations of 1..N variants over a small signed value window,      *)
(* every mix of implicit / literal / non-literal discriminants and field    *)
(* kinds, every sorted request: the variant loop of the derive (ParseValues) *)
(* reports no error exactly when the documented catalogue (Decl) says the    *)
(* declaration is accepted, and then it collected the compiler's            *)
(* discriminants.                                                           *)
(***************************************************************************)
EXTENDS ParseValues
CONSTANT N
Vals == {-6, -5, 0, 1, 4, 5}              \* below / at the tiny i64 minimum, around zero, at / above its maximum
Names == {<<97>>, <<97, 98>>}

Lim == [tmin |-> -6, tmax |-> 6, i64min |-> -5, i64max |-> 4]      \* a tiny two's complement "i64" inside a tiny repr type
Kinds == {"implicit", "lit", "paren"}
VARIABLES src, req
Variants == [field : {"unit", "tuple1"}, dk : Kinds, val : Vals, name : Names]
Mk(q) == [item |-> "enum", reprs |-> <<"i8">>, variants |-> [i \in 1..Len(q) |-> [id |-> "V", field |-> q[i].field, dk |-> q[i].dk,
                                                                                  val |-> q[i].val, sp |-> "dec", name |-> q[i].name]],
          count |-> 0, lim |-> Lim]
Init == /\ \E n \in 1..N : \E q \in [1..n -> Variants] : src = Mk(q)
        /\ req \in SUBSET {"name", "value"}
Spec == Init /\ [][UNCHANGED <<src, req>>]_<<src, req>>

\* Rust-validity restricted to what matters here: values representable, distinct
Valid == RustValid(src)
Accepts == ParseResult(src, req).errs = {}
\* the derive accepts exactly the documented domain (for Rust-valid input)
Inv_Verdict == Valid => (Accepts <=> (InDomain(src) /\ SortedOK(src, req)))
\* ... and then it believes the compiler's discriminants
Inv_Values  == (Valid /\ Accepts) => ParseResult(src, req).vals = CompilerDisc(src)
\* out-of-domain input is never accepted, valid Rust or not (C12)
Inv_Reject  == ~InDomain(src) => ~Accepts
=============================================================================
