---- MODULE Resolve ----
\* Dependency resolution of enum-tools (generator/features.rs) and the closure property behind C10.
EXTENDS Integers, FiniteSets, TLC
CONSTANTS ModeSlice          \* "default" = user modes all auto;  "all" = every mode combination

UserF  == {"as_str","from_str","into","MAX","MIN","next","next_back","try_from",
           "Debug","Display","FromStr","Into","IntoStr","TryFrom","iter","names","range"}
Helper == {"table_enum","table_name","table_range"}
StrModes  == {"auto","match","table"}
IterModes == {"auto","range","nab","table","inline"}

VARIABLES user,      \* set of user-enabled features
          am, fm, tm, im,   \* requested modes of as_str, from_str (fn), FromStr (trait), iter
          gapless, small    \* shape: one run?   num_values * size_guess <= 8 ?
vars == <<user, am, fm, tm, im, gapless, small>>

\* ---- documented legality (lib.rs:360-368, iter "range" only on gapless) ----
Legal == /\ ("range" \in user => "iter" \in user /\ im # "inline")
         /\ ("iter" \in user /\ im = "range" => gapless)

\* ---- state of the resolver: enabled set, modes, with_offset, aborted ----
St0 == [en |-> user, am |-> am, fm |-> fm, tm |-> tm, im |-> im, off |-> FALSE, abort |-> FALSE]
On(st, f) == f \in st.en
Add(st, fs) == [st EXCEPT !.en = @ \cup fs]

Layer2(st) ==
  LET s1 == IF On(st,"Debug") \/ On(st,"Display") \/ On(st,"IntoStr") THEN Add(st, {"as_str"}) ELSE st
  IN IF ~On(s1,"range") THEN s1
     ELSE IF ~On(s1,"iter") THEN [s1 EXCEPT !.abort = TRUE]
     ELSE LET s2 == CASE s1.im \in {"auto","range"} -> s1
                      [] s1.im \in {"nab","table"} -> IF gapless THEN Add(s1, {"MIN"})
                                                       ELSE [Add(s1, {"table_range"}) EXCEPT !.off = TRUE]
                      [] s1.im = "inline" -> [s1 EXCEPT !.abort = TRUE]
          IN IF ~gapless THEN Add(s2, {"table_range"}) ELSE s2

StrTableCheck(st, needEnum) ==      \* from_str fn / FromStr trait in table mode
  Add(st, {"table_name"} \cup (IF ~gapless THEN {"table_enum"} ELSE {"MIN"}))

Layer1(st) ==
  LET s1 == IF On(st,"as_str") /\ st.am = "table"
            THEN [Add(st, {"table_name","table_range"} \cup (IF gapless THEN {"MIN"} ELSE {})) EXCEPT !.off = TRUE]
            ELSE st
      s2 == IF On(s1,"FromStr")  /\ s1.tm = "table" THEN StrTableCheck(s1, TRUE) ELSE s1
      s3 == IF On(s2,"from_str") /\ s2.fm = "table" THEN StrTableCheck(s2, TRUE) ELSE s2
      s4 == IF ~On(s3,"iter") THEN s3
            ELSE CASE s3.im = "auto"   -> s3
                   [] s3.im = "range"  -> IF gapless THEN s3 ELSE [s3 EXCEPT !.abort = TRUE]
                   [] s3.im = "nab"    -> Add(s3, {"next","next_back"})
                   [] s3.im = "table"  -> Add(s3, {"table_enum"})
                   [] s3.im = "inline" -> s3
      s5 == IF On(s4,"names") THEN Add(s4, {"table_name"}) ELSE s4
  IN s5

Layer0(st) ==
  LET s1 == IF On(st,"next")      THEN Add(st, {"MAX","table_range"}) ELSE st
      s2 == IF On(s1,"next_back") THEN Add(s1, {"MIN","table_range"}) ELSE s1
      s3 == IF On(s2,"TryFrom") \/ On(s2,"try_from") THEN Add(s2, {"MIN","MAX","table_range"}) ELSE s2
  IN s3

Enable(st) == Layer0(Layer1(Layer2(st)))

Auto(st) ==
  LET autos == Cardinality({x \in {<<"as_str", st.am>>, <<"FromStr", st.tm>>, <<"from_str", st.fm>>} :
                              On(st, x[1]) /\ x[2] = "auto"})
      s0 == IF autos > 1 THEN Add(st, {"table_name"}) ELSE st
      te == On(s0,"table_enum")  tn == On(s0,"table_name")
      pick == IF tn THEN "table" ELSE "match"
      s1 == [s0 EXCEPT !.am = IF On(s0,"as_str")   /\ @ = "auto" THEN pick ELSE @,
                       !.tm = IF On(s0,"FromStr")  /\ @ = "auto" THEN pick ELSE @,
                       !.fm = IF On(s0,"from_str") /\ @ = "auto" THEN pick ELSE @]
  IN IF On(s1,"iter") /\ s1.im = "auto"
     THEN [s1 EXCEPT !.im = IF gapless THEN "range"
                            ELSE IF te THEN "table"
                            ELSE IF small /\ ~On(s1,"range") THEN "inline" ELSE "nab"]
     ELSE s1

Resolved == Enable(Auto(Enable(St0)))

\* ---- what the emitted code of each item mentions (read off the quote! blocks) ----
Refs(st, f) ==
  CASE f = "as_str"   -> IF st.am = "match" THEN {} ELSE IF gapless THEN {"MIN","table_name"} ELSE {"table_range","table_name"}
    [] f \in {"Debug","Display","IntoStr"} -> {"as_str"}
    [] f = "from_str" -> IF st.fm = "match" THEN {} ELSE IF gapless THEN {"MIN","table_name"} ELSE {"table_enum","table_name"}
    [] f = "FromStr"  -> IF st.tm = "match" THEN {} ELSE IF gapless THEN {"MIN","table_name"} ELSE {"table_enum","table_name"}
    [] f = "iter"     -> CASE st.im = "nab" -> {"MIN","MAX","next","next_back"} [] st.im = "table" -> {"table_enum"} [] OTHER -> {}
    [] f = "names"    -> {"table_name"}
    [] f = "next"     -> IF gapless THEN {"MAX"} ELSE {"table_range"}
    [] f = "next_back"-> IF gapless THEN {"MIN"} ELSE {"table_range"}
    [] f = "range"    -> {"iter"} \cup (IF gapless THEN (CASE st.im = "range" -> {} [] st.im = "nab" -> {"MIN"} [] OTHER -> {"MIN","table_enum"})
                                        ELSE (CASE st.im = "nab" -> {"table_range"} [] OTHER -> {"table_range","table_enum"}))
    [] f \in {"try_from","TryFrom"} -> {"MIN","MAX"} \cup (IF gapless THEN {} ELSE {"table_range"})
    [] OTHER -> {}
NeedsOffset(st, f) == ~gapless /\ ((f = "as_str" /\ st.am = "table") \/ f = "range")
ModesResolved(st) == /\ (On(st,"as_str") => st.am # "auto") /\ (On(st,"FromStr") => st.tm # "auto")
                     /\ (On(st,"from_str") => st.fm # "auto") /\ (On(st,"iter") => st.im # "auto")
                     /\ (On(st,"iter") /\ st.im = "range" => gapless)
                     /\ (On(st,"range") => st.im \in {"range","nab","table"})
Closed(st) == \A f \in st.en : /\ Refs(st, f) \subseteq st.en
                               /\ (NeedsOffset(st, f) => st.off)

Init == /\ user \in SUBSET UserF
        /\ gapless \in BOOLEAN /\ small \in BOOLEAN
        /\ IF ModeSlice = "default"
           THEN am = "auto" /\ fm = "auto" /\ tm = "auto" /\ im = "auto"
           ELSE /\ am \in (IF "as_str"   \in user THEN StrModes ELSE {"auto"})
                /\ fm \in (IF "from_str" \in user THEN StrModes ELSE {"auto"})
                /\ tm \in (IF "FromStr"  \in user THEN StrModes ELSE {"auto"})
                /\ im \in (IF "iter"     \in user THEN IterModes ELSE {"auto"})
Next == UNCHANGED vars
Spec == Init /\ [][Next]_vars

Inv_C10 == Legal => LET r == Resolved IN ~r.abort /\ ModesResolved(r) /\ Closed(r)
Inv_C13 == ~Legal => Resolved.abort          \* the three contradictory combinations are aborted
====
