SPECIFICATION Spec
CONSTANTS N = 2
 UsePinnedNeg = FALSE
INVARIANTS Inv_Verdict Inv_Values Inv_Reject
CHECK_DEADLOCK FALSE
