------------------------------ MODULE Verdict ------------------------------
(***************************************************************************)
(* Case generator for the accept / reject properties C10 .. C14.            *)
(* One TLC state per case.  In every state the invariant Consistent checks   *)
(* that the case has the class its property needs (computed with the         *)
(* operators of Decl and Attr, i.e. by the documented catalogue):            *)
(*   C10  in-domain declaration, legal configuration        -> must compile  *)
(*   C11  in-domain declaration (rich), trivial configuration -> must compile*)
(*   C12  declaration outside the domain                     -> must fail    *)
(*   C13  in-domain declaration, configuration NOT legal      -> must fail    *)
(*   C14  in-domain declaration, sorted(..): compile iff SortedOK            *)
(* and Emit prints the case as JSON.  The same record is embedded in the     *)
(* verdict event and re-evaluated by TraceVerdict, so no expectation is      *)
(* carried outside TLC.                                                      *)
(***************************************************************************)
EXTENDS Decl, Attr, TLC, Json, Randomization
CONSTANTS Lims,      \* repr name -> [tmin, tmax, i64min, i64max, lo, hi]  (lo/hi: smallest / largest declarable value)
          Tier,      \* "quick" | "thorough"
          NRand      \* number of random feature subsets

FeatOrder == <<"as_str", "from_str", "into", "MAX", "MIN", "next", "next_back", "try_from",
               "Debug", "Display", "FromStr", "Into", "IntoStr", "TryFrom", "iter", "names", "range">>
ReprOrder == <<"u8", "i8", "u16", "i16", "u32", "i32", "u64", "i64", "u128", "i128", "usize", "isize">>
Lim(r) == [tmin |-> Lims[r].tmin, tmax |-> Lims[r].tmax, i64min |-> Lims[r].i64min, i64max |-> Lims[r].i64max]

\* ---- declarations -------------------------------------------------------------------------------
Digits(n) == IF n < 10 THEN <<48 + n>> ELSE <<48 + (n \div 10), 48 + (n % 10)>>
IdName(i) == <<86>> \o Digits(i)                                    \* "V<i>"
Var(i, field, dk, val, sp, name) == [id |-> "V" \o ToString(i), field |-> field, dk |-> dk, val |-> val, sp |-> sp, name |-> name]
Unit(i, dk, val, sp) == Var(i, "unit", dk, val, sp, IdName(i))
Enum(r, vs) == [item |-> "enum", reprs |-> <<r>>, variants |-> vs, count |-> 0, lim |-> Lim(r)]

GaplessDecl(r) == Enum(r, <<Unit(1, "implicit", 0, "dec"), Unit(2, "implicit", 0, "dec"), Unit(3, "implicit", 0, "dec")>>)
HolesDecl(r)   == Enum(r, <<Unit(1, "lit", 6, "dec"), Unit(2, "lit", 0, "dec"), Unit(3, "implicit", 0, "dec"), Unit(4, "lit", 3, "dec")>>)   \* {0,1,3,6}
SingleDecl(r)  == Enum(r, <<Unit(1, "implicit", 0, "dec")>>)
NegHolesDecl(r) == Enum(r, <<Unit(1, "lit", Lims[r].lo, "dec"), Unit(2, "lit", IF Lims[r].lo < 0 THEN 0 ELSE Lims[r].lo + 5, "dec"),
                             Unit(3, "lit", Lims[r].hi, "dec")>>)
Shapes(r) == {GaplessDecl(r), HolesDecl(r), SingleDecl(r), NegHolesDecl(r)}       \* NegHolesDecl: runs at both limits of the repr

\* ---- configurations -----------------------------------------------------------------------------
NoVarAttr == [at |-> 0, form |-> "none"]
EntryFor(f, mode, named) ==
  LET ps == (IF mode # "auto" /\ "mode" \in ParamsOf(f) THEN <<P("mode", "str", mode)>> ELSE <<>>)
            \o (IF named # "-" /\ "name" \in ParamsOf(f) THEN <<P("name", "str", "x_" \o f), P("vis", "str", named)>> ELSE <<>>)
            \o (IF named # "-" /\ "struct_name" \in ParamsOf(f) THEN <<P("struct_name", "str", "S" \o f)>> ELSE <<>>)
  IN IF ps = <<>> THEN E(f, "path", <<>>) ELSE E(f, "list", ps)
\* fs: set of features, modes: feature -> mode (only looked up for features with modes)
\* named: "-" (no name / vis parameters) or a visibility string
\* split: how the entries are distributed over enum_tools attributes and in which order they are written --
\*   "one" one attribute | "each" one attribute per feature | "rev" one per feature, reversed (a feature BEFORE the
\*   one it depends on: range before iter) | "onerev" one attribute, reversed | "halves" two attributes, the second
\*   half of the entries first
CfgOf(fs, modes, named, split) ==
  LET seq == SelectSeq(FeatOrder, LAMBDA f : f \in fs)
      ents == [i \in 1..Len(seq) |-> EntryFor(seq[i], IF seq[i] \in DOMAIN modes THEN modes[seq[i]] ELSE "auto",
                                              named)]
      n == Len(ents)
      rev == [i \in 1..n |-> ents[n + 1 - i]]
  IN [attrs |-> CASE split = "one" \/ ents = <<>> -> <<ents>>
                  [] split = "each"   -> [i \in 1..n |-> <<ents[i]>>]
                  [] split = "rev"    -> [i \in 1..n |-> <<rev[i]>>]
                  [] split = "onerev" -> <<rev>>
                  [] split = "halves" -> IF n < 2 THEN <<ents>> ELSE <<SubSeq(ents, n \div 2 + 1, n), SubSeq(ents, 1, n \div 2)>>,
      varattr |-> NoVarAttr]
Splits == {"one", "each", "rev", "onerev", "halves"}
NoModes == [x \in {} |-> "auto"]
Close(fs) == IF "range" \in fs THEN fs \cup {"iter"} ELSE fs
AllAuto(fs) == CfgOf(Close(fs), NoModes, "-", "one")

StrModes  == {"auto", "match", "table"}
IterModesImpl == {"auto", "range", "next_and_back", "table", "table_inline"}   \* documented and implemented
ModeFeatures == {"as_str", "from_str", "FromStr", "iter"}

Case(prop, src, cfg, note) == [prop |-> prop, src |-> src, cfg |-> cfg, note |-> note]
LegalFor(cfg, src) == Legal(cfg, Gapless(src))

\* C10: every documented combination compiles
C10Singles(r) ==
  UNION {{Case("C10", s, CfgOf(Close({f}), (f :> m), "-", "one"), "single feature, each documented mode") :
            s \in Shapes(r), m \in ModesOf(f)} : f \in ModeFeatures}
  \cup {Case("C10", s, AllAuto({f}), "single feature") : s \in Shapes(r), f \in UserFeatures}
  \cup {Case("C10", s, CfgOf(Close({f}), NoModes, v, "one"), "single feature with name / vis / struct_name") :
     s \in Shapes(r), f \in {g \in UserFeatures : ParamsOf(g) \cap {"name", "struct_name"} # {}}, v \in VisValues}
C10Pairs(r) ==
  {Case("C10", s, CfgOf(Close({f, g}), NoModes, "-", sp), "pair of features") :
     s \in {GaplessDecl(r), HolesDecl(r)}, f \in UserFeatures, g \in UserFeatures, sp \in Splits}
ModeProduct ==
  {[as_str |-> a, from_str |-> b, FromStr |-> c, iter |-> d] : a \in StrModes, b \in StrModes, c \in StrModes, d \in IterModesImpl}
C10Modes(r) ==
  {Case("C10", s, CfgOf({"as_str", "from_str", "FromStr", "iter"} \cup extra, m, "-", "one"), "mode product on a minimal feature set") :
     s \in Shapes(r), m \in ModeProduct, extra \in {{}, {"range"}, {"names", "Debug"}}}
C10Random(r) ==
  LET subs == RandomSubset(NRand, SUBSET UserFeatures) IN
  {Case("C10", s, CfgOf(Close(fs), m, nm, sp), "random feature subset") :
     s \in {GaplessDecl(r), HolesDecl(r)}, fs \in subs,
     m \in {NoModes, [as_str |-> "table", from_str |-> "table", FromStr |-> "table", iter |-> "table"],
            [as_str |-> "match", from_str |-> "table", FromStr |-> "match", iter |-> "next_and_back"]},
     nm \in {"-", "pub(crate)"}, sp \in {"one", "each"}}
  \cup {Case("C10", s, CfgOf(Close(fs), NoModes, "-", sp), "random feature subset, attribute order / grouping") :
     s \in {GaplessDecl(r), HolesDecl(r)}, fs \in subs, sp \in {"rev", "onerev", "halves"}}
C10All(r) == {x \in C10Singles(r) \cup C10Pairs(r) \cup C10Modes(r) \cup C10Random(r) : LegalFor(x.cfg, x.src)}

\* C13: single-fault mutations of legal configurations
Base1 == AllAuto(UserFeatures)
Base2 == CfgOf(UserFeatures, [as_str |-> "table", from_str |-> "match", FromStr |-> "table", iter |-> "next_and_back"], "pub", "each")
Base3 == AllAuto({"iter"})
Base4 == CfgOf({"as_str", "names", "TryFrom"}, [as_str |-> "table"], "-", "one")
Base5 == [AllAuto({"into", "Debug"}) EXCEPT !.attrs = <<<<E("sorted", "list", <<P("value", "none", "")>>)>>>> \o @]
Bases == {Base1, Base2, Base3, Base4, Base5}
C13All(r) ==
  UNION {{Case("C13", s, m.cfg, m.why) : m \in UNION {Mutations(b, Gapless(s)) : b \in Bases}} :
           s \in {GaplessDecl(r), HolesDecl(r)}}

\* C11: declarations in the documented domain (every repr, spellings, implicit / explicit mixes, limits)
Spellings == <<"dec", "hex", "oct", "bin", "sep", "suffix", "HEX", "sepsuffix">>
Candidates(r) == {Lims[r].lo, Lims[r].lo + 1, Lims[r].hi - 1, Lims[r].hi, 0, 1, 2, 10} \cup (IF Lims[r].lo < 0 THEN {-1, -2} ELSE {})
C11Decls(r) ==
  LET cs == Candidates(r) IN
  \* 1 .. 3 variants: explicit values a, then implicit / explicit, then implicit / explicit
  {Enum(r, <<Unit(1, "lit", a, sp)>>) : a \in cs, sp \in {Spellings[i] : i \in 1..Len(Spellings)}}
  \cup {Enum(r, <<Unit(1, "implicit", 0, "dec")>>)}
  \cup {Enum(r, <<Unit(1, k1, a, Spellings[((a + b) % 8) + 1]), Unit(2, k2, b, Spellings[((a + 3 * b) % 8) + 1])>>) :
          a \in cs, b \in cs, k1 \in {"lit", "implicit"}, k2 \in {"lit", "implicit"}}
  \cup {Enum(r, <<Unit(1, "lit", a, "dec"), Unit(2, "implicit", 0, "dec"), Unit(3, k3, b, Spellings[((a + b) % 8) + 1]), Unit(4, "implicit", 0, "dec")>>) :
          a \in cs, b \in cs, k3 \in {"lit", "implicit"}}
C11All(r) ==
  {Case("C11", d, cfg, "in-domain declaration") :
     d \in {x \in C11Decls(r) : RustValid(x) /\ InDomain(x)},
     cfg \in {AllAuto({}), AllAuto({"try_from", "as_str", "iter"})}}
C11Big == {Case("C11", [item |-> "enum", reprs |-> <<r>>, variants |-> <<>>, count |-> 65534, lim |-> Lim(r)],
                AllAuto({"try_from", "iter", "names"}), "65534 variants") : r \in {"u16", "i32"}}

\* C12: declarations outside the domain.  ctl: what rustc does with the same item without the derive
\* ("ok" | "fail" | "any"), the renderer guard of the control build.
\* every fault under several configurations: one that names the variants in generated code, one that does not
\* (a derive that only skips its own check could still be rejected by rustc through the generated match arms)
OutCfgs == {AllAuto({"as_str", "try_from"}), AllAuto({}), AllAuto({"names"}),
            [attrs |-> <<<<E("sorted", "list", <<P("value", "none", "")>>), E("names", "path", <<>>)>>>>, varattr |-> NoVarAttr]}
Out(r, src, note, ctl) == [prop |-> "C12", src |-> src, cfg |-> AllAuto({"as_str", "try_from"}), note |-> note, ctl |-> ctl]
OutAll(S) == UNION {{[x EXCEPT !.cfg = cf] : cf \in OutCfgs} : x \in S}
C12Items(r) ==
  {Out(r, [item |-> it, reprs |-> rp, variants |-> <<>>, count |-> 0, lim |-> Lim(r)], "not an enum: " \o it, "ok") :
     it \in {"struct_unit", "struct_tuple", "struct_named", "union"}, rp \in {<<>>, <<"C">>}}
  \cup {Out(r, Enum(r, <<>>), "enum without variants", "any")}
C12Fields(r) ==
  {Out(r, Enum(r, [i \in 1..3 |-> IF i = pos THEN Var(i, fk, "lit", i, "dec", IdName(i)) ELSE Unit(i, "lit", i, "dec")]),
       "variant with fields: " \o fk, "ok") : fk \in {"tuple0", "named0", "tuple1", "named1"}, pos \in 1..3}
  \cup {Out(r, Enum(r, [i \in 1..3 |-> IF i = pos THEN Var(i, fk, "implicit", 0, "dec", IdName(i)) ELSE Unit(i, "implicit", 0, "dec")]),
       "variant with fields, implicit discriminants: " \o fk, "ok") : fk \in {"tuple0", "named0", "tuple1", "named1"}, pos \in 1..3}
\* what rustc alone does with such an expression (val is nominal for these kinds): a negation needs a
\* signed type, a byte literal is a u8
CtlOfKind(r, k) == IF k \in OutKindsInvalid THEN "fail"
                   ELSE IF k \in {"negparen", "dblneg"} /\ Lims[r].tmin = 0 THEN "fail"
                   ELSE IF k = "byte" /\ r # "u8" THEN "fail"
                   ELSE "ok"
C12Exprs(r) ==
  {Out(r, Enum(r, [i \in 1..3 |-> IF i = pos THEN Unit(i, k, 2 * i, "dec") ELSE Unit(i, "lit", 2 * i, "dec")]),
       "discriminant is not a plain literal: " \o k, CtlOfKind(r, k)) :
     k \in OutKinds, pos \in 1..3}
  \cup {Out(r, Enum(r, <<Unit(1, k, 1, "dec")>>), "single variant, discriminant is not a plain literal: " \o k,
            CtlOfKind(r, k)) : k \in OutKinds}
C12Values(r) ==
  (IF Lims[r].tmax > Lims[r].i64max
   THEN {Out(r, Enum(r, <<Unit(1, "lit", 0, "dec"), Unit(2, "lit", Lims[r].i64max + 1, "dec")>>), "literal above i64::MAX", "ok"),
         Out(r, Enum(r, <<Unit(1, "lit", 0, "dec"), Unit(2, "lit", Lims[r].i64max + 7, "hex")>>), "literal above i64::MAX", "ok"),
         Out(r, Enum(r, <<Unit(1, "lit", Lims[r].i64max, "dec"), Unit(2, "implicit", 0, "dec")>>), "implicit discriminant after i64::MAX", "ok"),
         Out(r, Enum(r, <<Unit(1, "lit", Lims[r].i64max - 1, "dec"), Unit(2, "implicit", 0, "dec"), Unit(3, "implicit", 0, "dec")>>), "implicit discriminant after i64::MAX", "ok"),
         Out(r, Enum(r, <<Unit(1, "lit", Lims[r].tmax, "hex")>>), "literal at the repr type's maximum", "ok"),
         Out(r, Enum(r, <<Unit(1, "lit", 1, "dec"), Unit(2, "lit", Lims[r].tmax - 1, "dec")>>), "literal near the repr type's maximum", "ok")}
   ELSE {})
  \cup
  (IF Lims[r].tmin < Lims[r].i64min
   THEN {Out(r, Enum(r, <<Unit(1, "lit", Lims[r].i64min - 1, "dec"), Unit(2, "lit", 0, "dec")>>), "literal below i64::MIN", "ok"),
         Out(r, Enum(r, <<Unit(1, "lit", Lims[r].i64min - 16, "hex")>>), "literal below i64::MIN", "ok"),
         Out(r, Enum(r, <<Unit(1, "lit", Lims[r].i64min - 2, "dec"), Unit(2, "implicit", 0, "dec"), Unit(3, "lit", 5, "dec")>>), "literal below i64::MIN", "ok"),
         Out(r, Enum(r, <<Unit(1, "lit", Lims[r].tmin, "dec"), Unit(2, "lit", 0, "dec")>>), "literal at the repr type's minimum", "ok"),
         Out(r, Enum(r, <<Unit(1, "lit", Lims[r].tmin + 1, "dec")>>), "literal near the repr type's minimum", "ok")}
   ELSE {})
C12Reprs(r) ==
  {Out(r, [item |-> "enum", reprs |-> rp, variants |-> <<Unit(1, "implicit", 0, "dec"), Unit(2, "implicit", 0, "dec")>>, count |-> 0, lim |-> Lim(r)],
       "unsupported repr form", "any") :
     rp \in {<<>>, <<"C">>, <<"Rust">>, <<"u8, C">>, <<"C, u8">>, <<r, r>>, <<"u8", "i16">>, <<r, "align(2)">>, <<"align(2)", r>>,
             <<"u7">>, <<"-">>, <<r, "C">>, <<"C", r>>, <<"transparent">>}}
\* the limit is a property of the declaration, not of the helper tables: also under feature sets that need no table at all
C12Count == UNION {{[x EXCEPT !.cfg = cf] : cf \in {AllAuto({"as_str", "try_from"}), AllAuto({}),
                                                     AllAuto({"into", "try_from", "MIN", "MAX", "next", "next_back", "iter"})}} :
                   x \in {Out(r, [item |-> "enum", reprs |-> <<r>>, variants |-> <<>>, count |-> 65535, lim |-> Lim(r)], "65535 variants", "ok") : r \in {"u16", "u64"}}}
C12All(r) == OutAll(C12Items(r) \cup C12Fields(r) \cup C12Exprs(r) \cup C12Values(r) \cup C12Reprs(r))

\* C14: sorted(name) / sorted(value)
NamePool == <<<<97>>, <<97, 98>>, <<65>>, <<98>>, <<66>>, <<97>>, <<233>>, <<122>>, <<>>, <<97, 66>>>>   \* a ab A b B a e-acute z "" aB
SortedCfg(req) == [attrs |-> <<<<E("sorted", IF req = <<>> THEN "path" ELSE "list", [i \in 1..Len(req) |-> P(req[i], "none", "")]), E("as_str", "path", <<>>)>>>>,
                   varattr |-> NoVarAttr]
SortedReqs == {<<"name">>, <<"value">>, <<"name", "value">>, <<"value", "name">>, <<>>}
Perms(n) == {p \in [1..n -> 1..n] : \A i, j \in 1..n : i # j => p[i] # p[j]}
\* value families (ascending): small ones, the limits of the domain (a comparison by subtraction overflows
\* there), and an implicit run 0, 1 that an explicit negative value follows or precedes
C14Vals(r) == (IF Lims[r].tmin < 0 THEN {<<1, 2, 3, 5>>, <<-7, -2, 0, 4>>, <<-3, -2, -1, 0>>, <<-5, -4, 0, 1>>,
                                          <<Lims[r].lo, -1, 0, Lims[r].hi>>}
               ELSE {<<1, 2, 3, 5>>, <<0, 1, 2, 9>>})
              \cup {<<Lims[r].lo, Lims[r].lo + 1, Lims[r].hi - 1, Lims[r].hi>>}
C14Decls(r) ==
  \* n variants with the values vals[1..n] declared in the order p; names chosen by the rotation (k, j)
  UNION {{Enum(r, [i \in 1..n |-> Var(i, "unit",
                     IF expl \/ (i > 1 /\ vals[p[i]] # vals[p[IF i > 1 THEN i - 1 ELSE 1]] + 1) \/ (i = 1 /\ vals[p[1]] # 0) THEN "lit" ELSE "implicit",
                     vals[p[i]], "dec", NamePool[((p[i] * k + i * j) % 10) + 1])]) :
            p \in Perms(n), k \in 1..3, j \in 0..1, expl \in BOOLEAN, vals \in C14Vals(r)} : n \in 1..4}
\* long names: byte-wise order must not be decided by a fixed-size prefix, a hash or the length -- names that share
\* their first L bytes (L around the sizes of machine words and small buffers) and differ after them, or are prefixes
\* of each other: x^L b, x^L ab, x^L, x^L a   (ascending: x^L < x^L a < x^L ab < x^L b)
Rep(c, L) == [i \in 1..L |-> c]
LongPool(L) == <<Rep(120, L), Rep(120, L) \o <<97>>, Rep(120, L) \o <<97, 98>>, Rep(120, L) \o <<98>>>>
LongLens == {3, 7, 8, 15, 16, 17, 31, 32, 33, 64}
C14LongDecls(r) ==
  {Enum(r, [i \in 1..Len(q) |-> Var(i, "unit", "implicit", 0, "dec", LongPool(L)[q[i]])]) :
     q \in {<<a, b>> : a, b \in 1..4} \cup {<<a, b, c>> : a, b, c \in 1..4}, L \in LongLens}
\* raw identifiers next to ordinary ones: the name of `r#type` is `type` (the order must be the order of the NAMES, not of
\* the spelling and not of "kind of identifier first")
RawPool == <<[id |-> "r#break", name |-> <<98, 114, 101, 97, 107>>], [id |-> "default", name |-> <<100, 101, 102, 97, 117, 108, 116>>], [id |-> "r#type", name |-> <<116, 121, 112, 101>>], [id |-> "union", name |-> <<117, 110, 105, 111, 110>>], [id |-> "r#async", name |-> <<97, 115, 121, 110, 99>>], [id |-> "Zed", name |-> <<90, 101, 100>>]>>
C14RawDecls(r) ==
  {Enum(r, [i \in 1..Len(q) |-> [id |-> RawPool[q[i]].id, field |-> "unit", dk |-> "implicit", val |-> 0, sp |-> "dec", name |-> RawPool[q[i]].name]]) :
     q \in {x \in {<<a, b>> : a, b \in 1..6} \cup {<<a, b, c>> : a, b, c \in 1..6} :
               \A i, j \in 1..Len(x) : i # j => x[i] # x[j]}}       \* (identifiers are unique in an enum)
C14All(r) ==
  {Case("C14", d, SortedCfg(<<"name">>), "sorted, raw identifiers") : d \in {x \in C14RawDecls(r) : RustValid(x)}} \cup
  {Case("C14", d, SortedCfg(q), "sorted") : d \in C14Decls(r), q \in SortedReqs}
  \cup {Case("C14", d, SortedCfg(q), "sorted, long names with common prefixes") : d \in C14LongDecls(r), q \in {<<"name">>}}
  \cup {Case("C14", d, AllAuto({"as_str"}), "no sorted: any order") : d \in {x \in C14Decls(r) : Len(x.variants) = 3}}

\* ---- the state space: one state per case ----------------------------------------------------------
ReprsFor(prop) ==
  IF Tier = "thorough"
  THEN CASE prop = "C10" -> {"i8", "u16", "i64", "u128"}
         [] prop = "C13" -> {"i16", "u8", "i128"}
         [] prop = "C14" -> {"u8", "i32", "i64", "usize", "isize", "i128"}
         [] OTHER -> {ReprOrder[i] : i \in 1..12}
  ELSE CASE prop = "C10" -> {"i8", "u64"}
         [] prop = "C11" -> {ReprOrder[i] : i \in 1..12}
         [] prop = "C12" -> {"u8", "i64", "u64", "usize", "i128"}
         [] prop = "C13" -> {"i16"}
         [] prop = "C14" -> {"u8", "i64"}
CONSTANT Prop       \* which property's corpus this run generates
Cases == CASE Prop = "C10" -> UNION {C10All(r) : r \in ReprsFor("C10")}
           [] Prop = "C11" -> UNION {C11All(r) : r \in ReprsFor("C11")} \cup C11Big
           [] Prop = "C12" -> UNION {C12All(r) : r \in ReprsFor("C12")} \cup C12Count
           [] Prop = "C13" -> UNION {C13All(r) : r \in ReprsFor("C13")}
           [] Prop = "C14" -> UNION {C14All(r) : r \in ReprsFor("C14")}

VARIABLE c
Init == c \in Cases
Stutter == UNCHANGED c
Spec == Init /\ [][Stutter]_c

\* expected verdict by the documented catalogue
Expected(x) == /\ InDomain(x.src) /\ LegalFor(x.cfg, x.src)
               /\ SortedOK(x.src, SortedReq(x.cfg))
Consistent ==
  CASE c.prop = "C10" -> InDomain(c.src) /\ RustValid(c.src) /\ Expected(c)
    [] c.prop = "C11" -> InDomain(c.src) /\ RustValid(c.src) /\ Expected(c)
    [] c.prop = "C12" -> ~InDomain(c.src) /\ ~Expected(c)
    [] c.prop = "C13" -> InDomain(c.src) /\ RustValid(c.src) /\ ~LegalFor(c.cfg, c.src) /\ ~Expected(c)
    [] c.prop = "C14" -> InDomain(c.src) /\ RustValid(c.src) /\ LegalFor(c.cfg, c.src)
Emit == PrintT(<<"CASE", ToJson(c)>>)
=============================================================================
