----------------------------- MODULE EnumTools -----------------------------
(***************************************************************************)
(* COMPOSITION: the derive as one function of its input, assembled from the *)
(* implementation-shaped parts                                              *)
(*    ParseValues (variant loop)  +  ParseAttr (configuration)  +  item /   *)
(*    repr / count checks  ->  accepted or rejected                          *)
(*    Resolve (dependency + auto resolution)  ->  the mode of every item     *)
(*    GenCode / IterImpl  ->  the behaviour of every generated item          *)
(* and the end-to-end design-level statements behind the properties:         *)
(*    Thm_Verdict : accepted  <=>  Decl!InDomain /\ Attr!Legal /\ SortedOK    *)
(*                  (C10..C14 at design level)                                *)
(*    Thm_Items   : accepted => every enabled item, in the mode the          *)
(*                  resolution picked, equals the contract Abs (C01..C09)     *)
(* checked by TLC on every case of the Verdict generators (MC_EnumTools).     *)
(* Implementation-shaped, hence never an oracle for the code.                 *)
(***************************************************************************)
EXTENDS Verdict, ParseAttr, ParseValues, IterImpl

\* ---- item / repr / count checks (parser/attr.rs, parser/mod.rs) -------------------------------------
ItemErrors(src) ==
  (IF src.item # "enum" THEN {"NoEnum"} ELSE {})
  \cup (IF Len(src.reprs) = 0 THEN {"MissingReprAttribute"} ELSE {})
  \cup (IF Cardinality({i \in 1..Len(src.reprs) : TRUE}) > 1 THEN {"DuplicateReprAttribute"} ELSE {})
  \cup (IF Len(src.reprs) = 1 /\ src.reprs[1] \notin PrimReprs THEN {"UnsupportedRepr"} ELSE {})
  \cup (IF src.item = "enum" /\ NVariants(src) = 0 THEN {"NoVariantsFound"} ELSE {})
  \cup (IF NVariants(src) > MaxVariants THEN {"TooManyValues"} ELSE {})

DeriveErrors(src, cfg) ==
  ItemErrors(src)
  \cup (IF src.item = "enum" /\ src.count = 0 /\ src.variants # <<>> THEN ParseResult(src, SortedReq(cfg)).errs ELSE {})
  \cup ImplErrors(cfg, Gapless(src))
Accepted(src, cfg) == DeriveErrors(src, cfg) = {}

Thm_Verdict(x) == Accepted(x.src, x.cfg) <=> Expected(x)

\* ---- the modes the resolution picks --------------------------------------------------------------------
SizeGuess(r) == CASE r \in {"u8", "i8"} -> 1 [] r \in {"u16", "i16"} -> 2 [] r \in {"u32", "i32", "usize", "isize"} -> 4
                  [] r \in {"u64", "i64"} -> 8 [] OTHER -> 16
ToResolveMode(m) == CASE m = "next_and_back" -> "nab" [] m = "table_inline" -> "inline" [] m = "absent" -> "auto" [] OTHER -> m
Res(src, cfg) == INSTANCE Resolve WITH ModeSlice <- "all",
                   user <- {f \in UserFeatures : Has(cfg, f)},
                   am <- ToResolveMode(ModeOf(cfg, "as_str")), fm <- ToResolveMode(ModeOf(cfg, "from_str")),
                   tm <- ToResolveMode(ModeOf(cfg, "FromStr")), im <- ToResolveMode(ModeOf(cfg, "iter")),
                   gapless <- Gapless(src),
                   small <- (NVariants(src) * SizeGuess(src.reprs[1]) <= 8)

\* ---- the behaviour of the generated items equals the contract -------------------------------------------
DiscSet(src) == {CompilerDisc(src)[i] : i \in 1..Len(src.variants)}
NameMap(src) == [d \in DiscSet(src) |-> src.variants[CHOOSE i \in 1..Len(src.variants) : CompilerDisc(src)[i] = d].name]
ItemsOK(src, cfg) ==
  LET S == DiscSet(src)
      D == NameMap(src)
      r == Res(src, cfg)!Resolved
      Args == (Min(S) - 2)..(Max(S) + 2)
      iterMode == CASE r.im = "nab" -> "nab" [] r.im = "inline" -> "inline" [] OTHER -> r.im
  IN /\ ~r.abort /\ Res(src, cfg)!ModesResolved(r) /\ Res(src, cfg)!Closed(r)
     /\ ("table_range" \in r.en /\ r.off => TablesCompile(S))          \* the emitted constant evaluates
     /\ (Has(cfg, "try_from") \/ Has(cfg, "TryFrom") => \A n \in Args : ImplTryFrom(S, n) = TryFrom(D, n))
     /\ ("as_str" \in r.en => \A v \in S : ImplAsStr(S, D, r.am, v) = AsStr(D, v))
     /\ (Has(cfg, "from_str") => \A v \in S : FromStrOK(D, D[v], ImplFromStr(S, D, r.fm, D[v])))
     /\ (Has(cfg, "FromStr")  => \A v \in S : FromStrOK(D, D[v], ImplFromStr(S, D, r.tm, D[v])))
     /\ ("next" \in r.en => \A v \in S : ImplNext(S, v) = NextOf(D, v))
     /\ ("next_back" \in r.en => \A v \in S : ImplNextBack(S, v) = NextBackOf(D, v))
     /\ ("MIN" \in r.en => ImplMin(S) = MinOf(D)) /\ ("MAX" \in r.en => ImplMax(S) = MaxOf(D))
     /\ (Has(cfg, "iter") => AbsRest(S, NewIter(S, iterMode)) = IterList(D))
     /\ (Has(cfg, "range") => \A a, b \in S : LET st == NewRange(S, iterMode, a, b) IN
                                st.m \notin {"panic", "ub"} /\ AbsRest(S, st) = RangeList(D, a, b))
Thm_Items(x) == (Accepted(x.src, x.cfg) /\ x.src.count = 0) => ItemsOK(x.src, x.cfg)
=============================================================================
