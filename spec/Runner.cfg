SPECIFICATION Spec
CONSTANTS N = 5
INVARIANTS InOrderOnce NoDanglingAtEnd FatalIsAbort Complete
PROPERTY Terminates
CHECK_DEADLOCK FALSE
