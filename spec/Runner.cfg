SPECIFICATION Spec
CONSTANTS N = 5
 NS = 2
INVARIANTS InOrderOnce NoDanglingAtEnd FatalIsAbort Complete
PROPERTY Terminates
CHECK_DEADLOCK FALSE
