---------------------------- MODULE MC_ParseAttr ----------------------------
(***************************************************************************)
(* For every configuration case of the C10 and C13 generators (Verdict.tla): *)
(* the parser model reports no error exactly when the documented catalogue   *)
(* says the configuration is legal -- except for the named deviation F6.     *)
(***************************************************************************)
EXTENDS Verdict, ParseAttr

Inv_ParserIsCatalogue ==
  c.prop \in {"C10", "C13"} =>
    (ImplAccepts(c.cfg, Gapless(c.src)) <=> LegalFor(c.cfg, c.src))
=============================================================================
