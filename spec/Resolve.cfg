SPECIFICATION Spec
CONSTANTS ModeSlice = "default"
INVARIANTS Inv_C10 Inv_C13
CHECK_DEADLOCK FALSE
