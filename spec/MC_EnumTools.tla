---------------------------- MODULE MC_EnumTools ----------------------------
(***************************************************************************)
(* End-to-end design-level check on every case of the Verdict generators.   *)
(* Items are evaluated for the cases declared with the repr the integer     *)
(* type of this instance models (TMin..TMax = i8).                          *)
(***************************************************************************)
EXTENDS EnumTools
Inv_Verdict == Thm_Verdict(c)
\* (the documented but unimplemented iter mode "match", finding F6, has no generated code to model)
Inv_Items   == (c.src.reprs = <<"i8">> /\ c.prop \in {"C10", "C11", "C14"} /\ ModeOf(c.cfg, "iter") # "match") => Thm_Items(c)
=============================================================================
