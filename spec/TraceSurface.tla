---------------------------- MODULE TraceSurface ----------------------------
(***************************************************************************)
(* Judge for C15 / C19 (surface part): every event carries the abstract     *)
(* case and what rustdoc (i.e. the compiler) reports for the module the     *)
(* derive was applied in.  Expected surface: Surface!SurfaceOK.             *)
(*  [ev |-> "surface", case, c |-> case record, built |-> BOOLEAN,           *)
(*   items, structs, traits (sequences, see Surface.tla),                    *)
(*   peer |-> sequence of [name, isconst, ref] (see Step)]                   *)
(***************************************************************************)
EXTENDS Surface, IOUtils, Sequences

Rec == ndJsonDeserialize(IOEnv.TRACE)
VARIABLE l
TInit == l = 1
ObsOf(e) == [items |-> ToSet(e.items),
             structs |-> {[name |-> s.name, vis |-> s.vis, traits |-> ToSet(s.traits)] : s \in ToSet(e.structs)},
             traits |-> ToSet(e.traits)]
\* which clause fails (for the report)
Why(cc, o) ==
  IF ~(\A u \in UserItems(cc) : \E i \in o.items : i.name = u.name /\ i.kind = u.kind /\ i.vis = u.vis /\ (u.isconst => i.isconst))
  THEN "a requested item is missing or has another name / kind / visibility / const-ness"
  ELSE IF ~(\A i \in o.items : (\E u \in UserItems(cc) : u.name = i.name) \/ i.vis = "private") THEN "a helper item is not private"
  ELSE IF ~(\A s \in UserStructs(cc) : \E t \in o.structs : t.name = s.name /\ t.vis = s.vis /\ s.traits \subseteq t.traits) THEN "iterator struct: name, visibility or traits"
  ELSE IF ~(\A t \in o.structs : \E s \in UserStructs(cc) : s.name = t.name) THEN "an undocumented item was added to the module"
  ELSE IF o.traits # UserTraits(cc) THEN "trait implementations differ from the requested ones"
  ELSE "duplicate item name"
Step ==
  /\ l <= Len(Rec) /\ l' = l + 1
  /\ LET e == Rec[l] IN
     IF ~e.built
     THEN \* a documented request (name / vis / struct_name on a legal configuration) that the derive does not honour at all:
          \* the combination does not compile (C10) and the requested items do not exist under the requested names (C15)
          PrintT(<<"VIOL", ToJson([line |-> l, case |-> e.case, props |-> {"C10", "C15"}, why |-> "legal surface case does not compile", msg |-> e.msg])>>)
     ELSE LET o == ObsOf(e) IN
          /\ (~SurfaceOK(e.c, o) =>
                PrintT(<<"VIOL", ToJson([line |-> l, case |-> e.case, props |-> {"C15"}, why |-> Why(e.c, o), msg |-> ""])>>))
          /\ (~SigOK(e.c, o) =>
                PrintT(<<"VIOL", ToJson([line |-> l, case |-> e.case, props |-> {"C19"},
                                         why |-> "a requested item does not have the documented (return) type", msg |-> ""])>>))
          \* C09 (metamorphic): e.peer lists, for items of this case, the const-ness the SAME item had in an earlier case of
          \* the SAME declaration under another configuration (refcase: that event's line).  Whether an item can be called
          \* in a constant expression is observable; it must not depend on the mode or on the co-enabled features.
          /\ Assert(\A p \in ToSet(e.peer) : p.ref < l /\ Rec[p.ref].built
                                             /\ \E i \in ToSet(Rec[p.ref].items) : i.name = p.name /\ i.isconst = p.isconst,
                    <<"malformed peer annotation at line", l>>)
          /\ ((\E p \in ToSet(e.peer) : \E i \in o.items : i.name = p.name /\ i.isconst # p.isconst) =>
                PrintT(<<"VIOL", ToJson([line |-> l, case |-> e.case, props |-> {"C09"},
                                         why |-> "the const-ness of an item depends on the configuration", msg |-> ""])>>))
TSpec == TInit /\ [][Step]_l
Consumed == IF TLCGet("stats").diameter - 1 = Len(Rec) THEN PrintT(<<"CONSUMED", Len(Rec)>>)
            ELSE PrintT(<<"STUCK", TLCGet("stats").diameter>>) /\ FALSE
=============================================================================
