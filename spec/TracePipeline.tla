---------------------------- MODULE TracePipeline ----------------------------
(***************************************************************************)
(* Drift detector for the implementation-shaped model of the dependency     *)
(* and auto-mode resolution (Resolve.tla).  Input: the records written by   *)
(* the guarded hook in the derive (cargo feature `verif-trace`, file         *)
(* src/verif_trace.rs): per derive invocation the feature set BEFORE the     *)
(* resolution and what the code decided.  For each record Resolve is         *)
(* instantiated with the `pre` state and its result compared with `post`.    *)
(*                                                                         *)
(* A difference is MODEL DRIFT ("DRIFT" line): the documentation allows the  *)
(* auto policy and the helper choices to change, so this is never a          *)
(* violation of a property -- it says that Resolve.tla no longer describes   *)
(* the code and that the behavioural corpus should be looked at for the      *)
(* drifting configuration.                                                   *)
(***************************************************************************)
EXTENDS Integers, Sequences, FiniteSets, SequencesExt, TLC, Json, IOUtils

Rec == ndJsonDeserialize(IOEnv.TRACE)
VARIABLE l
Init == l = 1

UserF == {"as_str", "from_str", "into", "MAX", "MIN", "next", "next_back", "try_from",
          "Debug", "Display", "FromStr", "Into", "IntoStr", "TryFrom", "iter", "names", "range"}
R(e) == INSTANCE Resolve WITH ModeSlice <- "all",
          user <- ToSet(e.pre.en) \cap UserF, am <- e.pre.am, fm <- e.pre.fm, tm <- e.pre.tm, im <- e.pre.im,
          gapless <- e.gapless, small <- e.small
Agrees(e) ==
  LET r == R(e)!Resolved IN
  /\ ~r.abort
  /\ r.en = ToSet(e.post.en)
  /\ r.am = e.post.am /\ r.fm = e.post.fm /\ r.tm = e.post.tm /\ r.im = e.post.im
  /\ r.off = e.post.off
Step ==
  /\ l <= Len(Rec) /\ l' = l + 1
  /\ LET e == Rec[l] IN
     (~Agrees(e) => PrintT(<<"DRIFT", ToJson([line |-> l, rec |-> e, model |-> R(e)!Resolved])>>))
Spec == Init /\ [][Step]_l
Consumed == IF TLCGet("stats").diameter - 1 = Len(Rec) THEN PrintT(<<"CONSUMED", Len(Rec)>>)
            ELSE PrintT(<<"STUCK", TLCGet("stats").diameter>>) /\ FALSE
=============================================================================
