SPECIFICATION Spec
POSTCONDITION Consumed
CHECK_DEADLOCK FALSE
