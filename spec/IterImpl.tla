------------------------------ MODULE IterImpl ------------------------------
(***************************************************************************)
(* Implementation-shaped model of the four ITERATOR REPRESENTATIONS and of  *)
(* the range(a, b) constructors (src/feature/iter/*.rs, range_fn.rs, and    *)
(* the core iterators they wrap: RangeInclusive, slice::Iter, array::       *)
(* IntoIter), checked by TLC to REFINE the remaining-sequence machine       *)
(* IterAbs for every enum over a small complete integer type, every         *)
(* constructor argument pair and every operation sequence (MC_IterImpl).    *)
(* Not an oracle: only Abs / IterAbs judge the real code.                   *)
(*                                                                         *)
(* Representation states                                                    *)
(*  range : [m |-> "range", start, end, exhausted]   core::ops::RangeInclusive<repr> mapped by transmute *)
(*  nab   : [m |-> "nab", fwd, bwd, len]             fwd / bwd: <<>> = None, <<v>> = Some(v)             *)
(*  table / inline : [m |-> "table", lo, hi]          window into __ENUM (1-based, empty iff lo > hi)     *)
(***************************************************************************)
EXTENDS GenCode, IterAbs

SomeV(v) == <<v>>
NoneV    == <<>>

\* ---- constructors -------------------------------------------------------------------------------
NewIter(S, m) ==
  CASE m = "range" -> [m |-> "range", start |-> MinKey(S), end |-> MaxKey(S), exhausted |-> FALSE]     \* iter/range.rs
    [] m = "nab"   -> [m |-> "nab", fwd |-> SomeV(MinKey(S)), bwd |-> SomeV(MaxKey(S)), len |-> NumValues(S)]  \* next_and_back.rs
    [] m \in {"table", "inline"} -> [m |-> "table", lo |-> 1, hi |-> NumValues(S)]                        \* table.rs / table_inline.rs

\* range_fn.rs; result: a state, or "panic" / "ub"
NewRange(S, m, a, b) ==
  CASE m = "range" -> [m |-> "range", start |-> a, end |-> b, exhausted |-> FALSE]
    [] m = "nab"   -> LET ix == RangeIdx(S, a, b) IN
                      IF ~ix.ok THEN [m |-> "ub"]
                      ELSE [m |-> "nab", fwd |-> SomeV(a), bwd |-> SomeV(b),
                            len |-> IF ix.a > ix.b THEN 0 ELSE ix.b - ix.a + 1]
    [] m = "table" -> LET ix == RangeIdx(S, a, b) IN
                      IF ~ix.ok THEN [m |-> "ub"]
                      ELSE IF ix.a > ix.b THEN [m |-> "table", lo |-> 1, hi |-> 0]                \* the guard added by the repair of F3
                      ELSE IF ix.b + 1 > NumValues(S) THEN [m |-> "panic"]                          \* slice index out of range
                      ELSE [m |-> "table", lo |-> ix.a + 1, hi |-> ix.b + 1]
\* DEVIATION of the pinned tree (finding F3): no guard, `[start..=end]` panics when start > end + 1
NewRangeTablePinned(S, a, b) ==
  LET ix == RangeIdx(S, a, b) IN
  IF ~ix.ok THEN [m |-> "ub"]
  ELSE IF ix.a > ix.b + 1 \/ ix.b + 1 > NumValues(S) THEN [m |-> "panic"]
  ELSE [m |-> "table", lo |-> ix.a + 1, hi |-> ix.b + 1]

\* ---- one step from the front / from the back: <<result, state'>> -----------------------------------
OptToObs(S, o) == IF o = NoneV THEN None ELSE Transmute(S, o[1])
RIEmpty(st) == st.exhausted \/ ~(st.start <= st.end)
StepNext(S, st) ==
  CASE st.m = "range" ->
         IF RIEmpty(st) THEN <<None, st>>
         ELSE IF st.start < st.end THEN <<Transmute(S, st.start), [st EXCEPT !.start = @ + 1]>>
              ELSE <<Transmute(S, st.start), [st EXCEPT !.exhausted = TRUE]>>
    [] st.m = "nab" ->
         IF st.len = 0 THEN <<None, st>>
         ELSE LET nx == IF st.fwd = NoneV THEN NoneV
                        ELSE LET r == ImplNext(S, st.fwd[1]) IN IF r.k = "val" THEN SomeV(r.v) ELSE NoneV
              IN <<OptToObs(S, st.fwd), [st EXCEPT !.fwd = nx, !.len = @ - 1]>>
    [] st.m = "table" ->
         IF st.lo > st.hi THEN <<None, st>> ELSE <<Val(TableEnum(S)[st.lo]), [st EXCEPT !.lo = @ + 1]>>
StepBack(S, st) ==
  CASE st.m = "range" ->
         IF RIEmpty(st) THEN <<None, st>>
         ELSE IF st.start < st.end THEN <<Transmute(S, st.end), [st EXCEPT !.end = @ - 1]>>
              ELSE <<Transmute(S, st.end), [st EXCEPT !.exhausted = TRUE]>>
    [] st.m = "nab" ->
         IF st.len = 0 THEN <<None, st>>
         ELSE LET nx == IF st.bwd = NoneV THEN NoneV
                        ELSE LET r == ImplNextBack(S, st.bwd[1]) IN IF r.k = "val" THEN SomeV(r.v) ELSE NoneV
              IN <<OptToObs(S, st.bwd), [st EXCEPT !.bwd = nx, !.len = @ - 1]>>
    [] st.m = "table" ->
         IF st.lo > st.hi THEN <<None, st>> ELSE <<Val(TableEnum(S)[st.hi]), [st EXCEPT !.hi = @ - 1]>>

\* nth / nth_back: the wrappers forward to the inner iterator; Map<RangeInclusive> and the next_and_back
\* struct use the provided methods (n times next, then next); slice / array iterators jump
RECURSIVE NthRep(_, _, _, _)
NthRep(S, st, n, back) ==
  LET r == IF back THEN StepBack(S, st) ELSE StepNext(S, st) IN
  IF n = 0 \/ r[1].k # "val" THEN r ELSE NthRep(S, r[2], n - 1, back)
StepNth(S, st, n) ==
  IF st.m = "table"
  THEN IF n >= st.hi - st.lo + 1 THEN <<None, [st EXCEPT !.lo = st.hi + 1]>>
       ELSE <<Val(TableEnum(S)[st.lo + n]), [st EXCEPT !.lo = @ + n + 1]>>
  ELSE NthRep(S, st, n, FALSE)
StepNthBack(S, st, n) ==
  IF st.m = "table"
  THEN IF n >= st.hi - st.lo + 1 THEN <<None, [st EXCEPT !.hi = st.lo - 1]>>
       ELSE <<Val(TableEnum(S)[st.hi - n]), [st EXCEPT !.hi = @ - n - 1]>>
  ELSE NthRep(S, st, n, TRUE)
\* len / size_hint
ImplLen(st) ==
  CASE st.m = "range" -> IF RIEmpty(st) THEN 0 ELSE st.end - st.start + 1       \* size_hint().0 of RangeInclusive
    [] st.m = "nab"   -> st.len
    [] st.m = "table" -> IF st.lo > st.hi THEN 0 ELSE st.hi - st.lo + 1

\* ---- refinement mapping: the list of items the representation still stands for -------------------
RECURSIVE Follow(_, _, _)
Follow(S, v, n) == IF n = 0 THEN <<>> ELSE
                   LET r == ImplNext(S, v) IN <<v>> \o (IF r.k = "val" /\ n > 1 THEN Follow(S, r.v, n - 1) ELSE <<>>)
AbsRest(S, st) ==
  CASE st.m = "range" -> IF RIEmpty(st) THEN <<>> ELSE [i \in 1..(st.end - st.start + 1) |-> st.start + i - 1]
    [] st.m = "nab"   -> IF st.len = 0 \/ st.fwd = NoneV THEN <<>> ELSE Follow(S, st.fwd[1], st.len)
    [] st.m = "table" -> SubSeq(TableEnum(S), st.lo, st.hi)
=============================================================================
