---------------------------- MODULE ParseValues ----------------------------
(***************************************************************************)
(* Implementation-shaped model of the variant loop of the derive            *)
(* (src/parser/values.rs, as of the repaired tree): ONE STEP PER VARIANT,   *)
(* tracking exactly the state the code tracks -- the map of values seen,    *)
(* `last`, `last_name`, the errors emitted so far.  Checked against the     *)
(* documented catalogue (Decl.tla) by MC_ParseValues for every sequence of  *)
(* up to 4 variants over a small value window:                              *)
(*   no error  <=>  in domain /\ Rust-valid /\ SortedOK                      *)
(*   the collected values = Decl!CompilerDisc                                *)
(* Not an oracle: it documents how the code decides, the real code is        *)
(* judged by TraceVerdict / TraceRt only.                                    *)
(*                                                                         *)
(* src as in Decl.tla; I64Min / I64Max from src.lim.                         *)
(***************************************************************************)
EXTENDS Decl, TLC
CONSTANT UsePinnedNeg      \* TRUE: the pinned tree's parsing of negated literals (finding F5)

\* state of the loop
PInit == [i |-> 1, vals |-> <<>>, last |-> -1, lastName |-> <<>>, hasLast |-> FALSE, errs |-> {}, seen |-> {}]

\* one iteration for variant v (values.rs:19-105)
PStep(src, req, st) ==
  LET v == src.variants[st.i]
      e1 == IF v.field # "unit" THEN {"OnlyUnitField"} ELSE {}
      \* sorted(name): compare with the previous NAME (after renaming)
      e2 == IF "name" \in req /\ st.hasLast /\ ~SeqLess(st.lastName, v.name) THEN {"FieldsNotNameSorted"} ELSE {}
      explicit == v.dk # "implicit"
      isLit    == v.dk = "lit"
      \* repaired tree: sign and digits are parsed together.  DEVIATION of the pinned tree (F5): the magnitude
      \* was parsed as an i64 and negated afterwards, so i64::MIN itself was rejected
      inI64    == IF UsePinnedNeg /\ v.val < 0 THEN -v.val <= src.lim.i64max
                  ELSE src.lim.i64min <= v.val /\ v.val <= src.lim.i64max
      \* explicit literal inside i64: value-sorted check, insert, last := value
      \* explicit literal outside i64: NoI64, `last` NOT updated;  other expression: NotInteger, `last` NOT updated
      \* implicit: last = i64::MAX -> I64Overflow; last := last + 1 (wrapping); insert
      newv == IF explicit THEN v.val ELSE st.last + 1
      accept == (explicit /\ isLit /\ inI64) \/ ~explicit
      e3 == IF explicit /\ ~isLit THEN {"NotInteger"}
            ELSE IF explicit /\ ~inI64 THEN {"NoI64"}
            ELSE IF ~explicit /\ st.last = src.lim.i64max THEN {"I64Overflow"} ELSE {}
      e4 == IF explicit /\ isLit /\ inI64 /\ "value" \in req /\ st.seen # {} /\ v.val < st.last THEN {"FieldsNotValueSorted"} ELSE {}
      e5 == IF accept /\ newv \in st.seen THEN {"DuplicateValue"} ELSE {}
  IN [i |-> st.i + 1,
      vals |-> IF accept THEN Append(st.vals, newv) ELSE st.vals,
      last |-> IF accept THEN newv ELSE st.last,
      lastName |-> IF "name" \in req THEN v.name ELSE st.lastName,
      hasLast |-> IF "name" \in req THEN TRUE ELSE st.hasLast,
      errs |-> st.errs \cup e1 \cup e2 \cup e3 \cup e4 \cup e5,
      seen |-> IF accept THEN st.seen \cup {newv} ELSE st.seen]

RECURSIVE PRun(_, _, _)
PRun(src, req, st) == IF st.i > Len(src.variants) THEN st ELSE PRun(src, req, PStep(src, req, st))
ParseResult(src, req) ==
  LET st == PRun(src, req, PInit) IN
  [errs |-> st.errs \cup (IF st.seen = {} THEN {"NoVariantsFound"} ELSE {}), vals |-> st.vals]

\* NOTE (documented difference): sorted(value) in the code compares only EXPLICIT literals with `last`
\* (an implicit variant is last+1 and therefore always ascending); equal values are caught as duplicates.
=============================================================================
