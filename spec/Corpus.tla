------------------------------ MODULE Corpus ------------------------------
(***************************************************************************)
(* Stimulus generator for the run-time conformance corpus.                 *)
(* Enumerates every non-empty set S of discriminants over the candidate    *)
(* window set U of one repr type (model coordinates) and prints, per S,    *)
(* one JSON line with the arguments that the properties quantify over:     *)
(*   - try_from probes: type MIN/MAX, both neighbours of every member      *)
(*     (hence of every run boundary), far representatives                  *)
(*   - shape facts used only to stratify the sample (number of runs)       *)
(* The abstract contract is evaluated on every S as a sanity invariant     *)
(* (theorems of Abs), so the emitted cases are exactly the cases on which  *)
(* the contract's own consistency has been checked.                        *)
(***************************************************************************)
EXTENDS Abs, TLC, Json
CONSTANTS TMin, TMax, U, Far, MaxCard

VARIABLE s
Init == s \in {x \in (SUBSET U) : x # {} /\ Cardinality(x) <= MaxCard}
Stutter == UNCHANGED s
Spec == Init /\ [][Stutter]_s

Probes(S) == ({TMin, TMax} \cup Far \cup UNION {{d - 1, d, d + 1} : d \in S}) \cap (TMin..TMax)
Runs(S)   == Cardinality({d \in S : d - 1 \notin S})
DId(S)    == [d \in S |-> <<d>>]          \* a throw-away naming, only to evaluate the theorems

ContractSane ==
  LET D == DId(s) IN
  /\ Thm_NextInverse(D) /\ Thm_Chain(D) /\ Thm_NextNoneIffMax(D) /\ Thm_BackNoneIffMin(D)
  /\ Thm_RoundTrip(D, Probes(s)) /\ Thm_RangeEmpty(D) /\ Thm_RangeFull(D)

Emit == PrintT(<<"CASE", ToJson([s |-> SetToSortSeq(s, <), probes |-> SetToSortSeq(Probes(s), <),
                                 runs |-> Runs(s)])>>)
=============================================================================
