---------------------------- MODULE TraceVerdict ----------------------------
(***************************************************************************)
(* Trace specification for the accept / reject properties C10 .. C14.       *)
(* The "execution" is a rustc run on a case rendered from the abstract       *)
(* record; the event carries that record verbatim plus what rustc did:       *)
(*   [ev |-> "verdict", case, prop, src, cfg, accepted, ctl, ctlexp, msg]    *)
(*   accepted : the item with the derive compiled                            *)
(*   ctl      : the same item WITHOUT the derive and without enum_tools       *)
(*              attributes compiled (control build, renderer guard)           *)
(*   ctlexp   : "ok" | "fail" | "any" | "rust" (= decide by Decl!RustValid)    *)
(* The expected verdict is recomputed here from the documented catalogue      *)
(* (Decl!InDomain, Attr!Legal, Decl!SortedOK).  A control build that          *)
(* disagrees with the specification's model of rustc is a TOOL error           *)
(* (assertion), never a verdict.                                              *)
(***************************************************************************)
EXTENDS Decl, Attr, TLC, Json, IOUtils

Rec == ndJsonDeserialize(IOEnv.TRACE)
VARIABLE l
Init == l = 1

Expected(e) == /\ InDomain(e.src) /\ Legal(e.cfg, Gapless(e.src))
               /\ SortedOK(e.src, SortedReq(e.cfg))
ClassOK(e) ==
  CASE e.prop \in {"C10", "C11"} -> Expected(e)
    [] e.prop = "C12" -> ~InDomain(e.src)
    [] e.prop = "C13" -> InDomain(e.src) /\ ~Legal(e.cfg, Gapless(e.src))
    [] e.prop = "C14" -> InDomain(e.src) /\ Legal(e.cfg, Gapless(e.src))
CtlOK(e) ==
  CASE e.ctlexp = "any"  -> TRUE
    [] e.ctlexp = "ok"   -> e.ctl
    [] e.ctlexp = "fail" -> ~e.ctl
    [] e.ctlexp = "rust" -> e.ctl = RustValid(e.src)

Step ==
  /\ l <= Len(Rec) /\ l' = l + 1
  /\ LET e == Rec[l] IN
     /\ Assert(ClassOK(e), <<"case is not in the class of its property, line", l>>)
     /\ Assert(CtlOK(e), <<"control build disagrees with the specification's model of rustc, line", l, e.case>>)
     /\ (e.accepted # Expected(e) =>
           PrintT(<<"VIOL", ToJson([line |-> l, case |-> e.case, props |-> {e.prop},
                                    why |-> IF Expected(e) THEN "rejected" ELSE "accepted",
                                    msg |-> e.msg])>>))
Spec == Init /\ [][Step]_l

Consumed == IF TLCGet("stats").diameter - 1 = Len(Rec) THEN PrintT(<<"CONSUMED", Len(Rec)>>)
            ELSE PrintT(<<"STUCK", TLCGet("stats").diameter>>) /\ FALSE
=============================================================================
