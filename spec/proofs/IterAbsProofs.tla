--------------------------- MODULE IterAbsProofs ---------------------------
(***************************************************************************)
(* Unbounded companions (TLAPS) of theorems that MC_IterAbs / MC_IterMulti  *)
(* check by enumeration for N <= 6: they hold for windows over a list of    *)
(* ANY length and for ANY argument n.                                       *)
(***************************************************************************)
EXTENDS IterAbs, TLAPS

IsWindow(w) == w \in [lo : Int, hi : Int] /\ (w.lo <= w.hi \/ w = WEmpty)

LEMMA NormIsWindow == \A lo, hi \in Int : IsWindow(WNorm(lo, hi))
  BY DEF IsWindow, WNorm, WEmpty

LEMMA LenNonNeg == \A w : IsWindow(w) => WLen(w) \in Nat
  BY DEF IsWindow, WLen, WEmpty

\* fused: an empty window stays empty and yields None for every popping operation
THEOREM FusedW ==
  ASSUME NEW base, NEW w, IsWindow(w), WLen(w) = 0, NEW n \in Nat
  PROVE  /\ WNext(base, w) = <<INone, WEmpty>> /\ WNextBack(base, w) = <<INone, WEmpty>>
         /\ WNth(base, w, n) = <<INone, WEmpty>> /\ WNthBack(base, w, n) = <<INone, WEmpty>>
  BY DEF WNext, WNextBack, WNth, WNthBack, WLen, IsWindow

\* a popping operation that yields None leaves the iterator empty
THEOREM NoneEmpties ==
  ASSUME NEW base, NEW w, IsWindow(w), NEW n \in Nat
  PROVE  /\ (WNth(base, w, n)[1] = INone => WNth(base, w, n)[2] = WEmpty)
         /\ (WNthBack(base, w, n)[1] = INone => WNthBack(base, w, n)[2] = WEmpty)
         /\ (WNext(base, w)[1] = INone => WLen(w) = 0)
         /\ (WNextBack(base, w)[1] = INone => WLen(w) = 0)
  BY DEF WNext, WNextBack, WNth, WNthBack, WLen, IsWindow, INone, IItem, WEmpty, WNorm

\* exact size: an operation that yields an item shortens the window by exactly n + 1, results stay windows
THEOREM ExactW ==
  ASSUME NEW base, NEW w, IsWindow(w), NEW n \in Nat, n < WLen(w)
  PROVE  /\ IsWindow(WNth(base, w, n)[2]) /\ WLen(WNth(base, w, n)[2]) = WLen(w) - (n + 1)
         /\ IsWindow(WNthBack(base, w, n)[2]) /\ WLen(WNthBack(base, w, n)[2]) = WLen(w) - (n + 1)
PROOF
  <1>1. w.lo \in Int /\ w.hi \in Int /\ w.lo <= w.hi /\ n < w.hi - w.lo + 1
    BY DEF IsWindow, WLen, WEmpty
  <1>2. WNth(base, w, n)[2] = WNorm(w.lo + n + 1, w.hi) /\ WNthBack(base, w, n)[2] = WNorm(w.lo, w.hi - n - 1)
    BY <1>1 DEF WNth, WNthBack, WLen
  <1>3. CASE n = w.hi - w.lo
    <2>1. WNorm(w.lo + n + 1, w.hi) = WEmpty /\ WNorm(w.lo, w.hi - n - 1) = WEmpty
      BY <1>1, <1>3 DEF WNorm
    <2>2. IsWindow(WEmpty) /\ WLen(WEmpty) = 0
      BY DEF IsWindow, WEmpty, WLen
    <2>3. WLen(w) - (n + 1) = 0
      BY <1>1, <1>3 DEF WLen
    <2> QED BY <1>2, <2>1, <2>2, <2>3
  <1>4. CASE n < w.hi - w.lo
    <2>1. WNorm(w.lo + n + 1, w.hi) = [lo |-> w.lo + n + 1, hi |-> w.hi] /\ WNorm(w.lo, w.hi - n - 1) = [lo |-> w.lo, hi |-> w.hi - n - 1]
      BY <1>1, <1>4 DEF WNorm
    <2>2. IsWindow([lo |-> w.lo + n + 1, hi |-> w.hi]) /\ IsWindow([lo |-> w.lo, hi |-> w.hi - n - 1])
      BY <1>1, <1>4 DEF IsWindow
    <2>3. WLen([lo |-> w.lo + n + 1, hi |-> w.hi]) = WLen(w) - (n + 1) /\ WLen([lo |-> w.lo, hi |-> w.hi - n - 1]) = WLen(w) - (n + 1)
      BY <1>1 DEF WLen
    <2> QED BY <1>2, <2>1, <2>2, <2>3
  <1> QED BY <1>1, <1>3, <1>4

\* nth(0) is next, nth_back(0) is next_back
THEOREM NthZero ==
  ASSUME NEW base, NEW w, IsWindow(w)
  PROVE  WNth(base, w, 0) = WNext(base, w) /\ WNthBack(base, w, 0) = WNextBack(base, w)
  BY DEF WNth, WNthBack, WNext, WNextBack, WLen, IsWindow, WEmpty

\* iterators are values: operations on different slots commute (any number of slots, any operation functions)
THEOREM CommuteW ==
  ASSUME NEW S, NEW ws \in [S -> [lo : Int, hi : Int]], NEW a \in S, NEW b \in S, a # b,
         NEW F(_), NEW G(_)
  PROVE  LET w1 == [ws EXCEPT ![a] = F(ws[a])]  w2 == [ws EXCEPT ![b] = G(ws[b])]
         IN  /\ w1[b] = ws[b] /\ w2[a] = ws[a]
             /\ [w1 EXCEPT ![b] = G(w1[b])] = [w2 EXCEPT ![a] = F(w2[a])]
  OBVIOUS
=============================================================================
