---------------------------- MODULE SequencesExt ----------------------------
(* Stub for tlapm only (the proof manager does not ship the CommunityModules): the three operators of   *)
(* SequencesExt that IterAbs uses, with the CommunityModules definitions.  TLC never reads this file.   *)
LOCAL INSTANCE Sequences
LOCAL INSTANCE Naturals
Last(s)    == s[Len(s)]
Front(s)   == SubSeq(s, 1, Len(s) - 1)
Reverse(s) == [i \in 1..Len(s) |-> s[(Len(s) - i) + 1]]
=============================================================================
