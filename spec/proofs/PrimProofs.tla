----------------------------- MODULE PrimProofs -----------------------------
(***************************************************************************)
(* Unbounded companions (TLAPS) of the wrap-around arithmetic that          *)
(* MC_GenCode checks exhaustively for 4-bit types: they hold for a          *)
(* two's-complement or unsigned type of ANY width.                          *)
(***************************************************************************)
EXTENDS Prim, TLAPS

\* an unsigned type 0..TMax, or a two's-complement type -(TMax+1)..TMax
TypeOK == /\ TMin \in Int /\ TMax \in Int /\ TMax >= 0
          /\ (TMin = 0 \/ TMin = -(TMax + 1))

LEMMA CardPos == TypeOK => Card \in Nat /\ Card > 0 /\ (TMin = 0 => Card = TMax + 1) /\ (TMin # 0 => Card = 2 * (TMax + 1))
  BY DEF TypeOK, Card

\* reducing a value that lies less than one period above the type's minimum
LEMMA ModSmall == \A c \in Nat, x \in Int : c > 0 /\ 0 <= x /\ x < c => x % c = x
  OBVIOUS
LEMMA ModNext == \A c \in Nat, x \in Int : c > 0 /\ c <= x /\ x < 2 * c => x % c = x - c
  OBVIOUS

\* `(v - m) as unsigned as usize` is the distance, for every pair m <= v of values of the type:
\* the index computation of the gapless tables (as_str table mode, range constructors)
THEOREM IndexIsDistance ==
  ASSUME TypeOK, NEW m \in T, NEW v \in T, m <= v
  PROVE  AsUnsigned(WrapSub(v, m)) = v - m
PROOF
  <1> DEFINE d == v - m
  <1>1. d \in Int /\ 0 <= d /\ d < Card /\ Card \in Nat /\ Card > 0
    BY CardPos DEF T, TypeOK, Card
  <1>2. CASE TMin = 0
    <2>0. (d - TMin) % Card = d - TMin
      BY <1>1, <1>2, ModSmall
    <2>1. Wrap(d) = d
      BY <2>0, <1>1, <1>2 DEF Wrap
    <2> QED BY <2>1, <1>2 DEF AsUnsigned, WrapSub
  <1>3. CASE TMin = -(TMax + 1)
    <2>0. Card = 2 * (TMax + 1) /\ TMax \in Int /\ TMax >= 0
      BY <1>3 DEF Card, TypeOK
    <2>1. CASE d <= TMax
      <3>1. 0 <= d - TMin /\ d - TMin < Card /\ d - TMin \in Int
        BY <1>1, <1>3, <2>0, <2>1
      <3>1a. (d - TMin) % Card = d - TMin
        BY <3>1, <1>1, ModSmall
      <3>2. Wrap(d) = d
        BY <3>1a, <3>1, <1>1, <2>0, <1>3 DEF Wrap
      <3>3. WrapSub(v, m) = d
        BY <3>2 DEF WrapSub
      <3>4. AsUnsigned(d) = d
        BY <1>1 DEF AsUnsigned
      <3> QED BY <3>3, <3>4
    <2>2. CASE d > TMax
      <3>1. Card <= d - TMin /\ d - TMin < 2 * Card /\ d - TMin \in Int
        BY <1>1, <1>3, <2>0, <2>2
      <3>2. (d - TMin) % Card = d - TMin - Card
        BY <3>1, <1>1, ModNext
      <3>3. Wrap(d) = d - Card
        BY <3>2, <3>1, <1>1, <1>3, <2>0 DEF Wrap
      <3>4. d - Card < 0 /\ TMin # 0
        BY <1>1, <1>3, <2>0
      <3>5. WrapSub(v, m) = d - Card
        BY <3>3 DEF WrapSub
      <3>6. AsUnsigned(d - Card) = d - Card + Card
        BY <3>4, <1>1 DEF AsUnsigned
      <3>7. d - Card + Card = d
        BY <1>1
      <3> QED BY <3>5, <3>6, <3>7
    <2> QED BY <2>1, <2>2, <1>1, <2>0
  <1> QED BY <1>2, <1>3 DEF TypeOK
=============================================================================
