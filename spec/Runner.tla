------------------------------- MODULE Runner -------------------------------
(***************************************************************************)
(* The recording protocol between the corpus runner (harness/rt) and the    *)
(* orchestrator (tools/run_rt.py) -- the part of the MACHINERY on which the *)
(* soundness of every run-time verdict rests.  Code under test may kill the *)
(* runner at any call (rustc's UB checks are non-unwinding, Miri aborts).   *)
(*                                                                         *)
(* Runner: for each script step it writes the event PREFIX, performs the    *)
(* call, writes the RESULT.  Orchestrator: when the runner dies it          *)
(* completes the dangling prefix with an `abort` result and restarts the    *)
(* runner AFTER that step; operations on an iterator SLOT that has no        *)
(* iterator (never constructed, or it died with the process) are skipped    *)
(* until a constructor fills that slot again.  Pure calls do not touch the  *)
(* slots (several iterators stay alive across them).                        *)
(*                                                                         *)
(* Checked for every script of N steps and every set of fatal steps:        *)
(*   - the final trace has no dangling prefix                                *)
(*   - events appear in script order, at most one per step (no call is       *)
(*     executed twice, none is recorded twice)                               *)
(*   - every fatal step that was reached has exactly one event, `abort`      *)
(*   - a step has no event only if it is an operation on a slot whose        *)
(*     iterator was lost earlier                                             *)
(*   - the protocol terminates                                               *)
(***************************************************************************)
EXTENDS Integers, Sequences, FiniteSets, TLC
CONSTANTS N,         \* number of script steps
          NS         \* number of iterator slots

Slot == 1..NS
\* pure call / constructor into a slot / operation on the iterator of a slot
\* / a block of concurrent threads (one step: it returns or the process dies in it; the slots do not survive it)
Kinds == {[t |-> "call", slot |-> 0], [t |-> "par", slot |-> 0]} \cup {[t |-> "new", slot |-> s] : s \in Slot} \cup {[t |-> "op", slot |-> s] : s \in Slot}
VARIABLES kind,      \* step -> kind (chosen initially: every script)
          fatal,     \* set of steps at which the code under test kills the process
          pc,        \* "run" | "dead" | "done"
          pos,       \* next step of the runner
          resume,    \* first step the (re)started runner executes
          lost,      \* the slots that have no iterator (never filled / died with the process): ops on them are not executed
          trace      \* sequence of [step, res] ; res \in {"pending", "ok", "abort"}
vars == <<kind, fatal, pc, pos, resume, lost, trace>>

Init == /\ kind \in [1..N -> Kinds] /\ fatal \in SUBSET (1..N)
        /\ pc = "run" /\ pos = 1 /\ resume = 1 /\ lost = Slot /\ trace = <<>>

Skippable(i) == kind[i].t = "op" /\ kind[i].slot \in lost
\* the runner executes step pos: prefix, call, result -- or dies inside the call
Exec == /\ pc = "run" /\ pos <= N /\ ~Skippable(pos)
        /\ IF pos \in fatal
           THEN /\ trace' = Append(trace, [step |-> pos, res |-> "pending"])      \* prefix written, process gone
                /\ pc' = "dead" /\ UNCHANGED <<pos, lost>>
           ELSE /\ trace' = Append(trace, [step |-> pos, res |-> "ok"])
                /\ lost' = IF kind[pos].t = "new" THEN lost \ {kind[pos].slot} ELSE IF kind[pos].t = "par" THEN Slot ELSE lost
                /\ pos' = pos + 1 /\ pc' = pc
        /\ UNCHANGED <<kind, fatal, resume>>
Skip == /\ pc = "run" /\ pos <= N /\ Skippable(pos)
        /\ pos' = pos + 1 /\ UNCHANGED <<kind, fatal, pc, resume, lost, trace>>
Finish == /\ pc = "run" /\ pos = N + 1 /\ pc' = "done" /\ UNCHANGED <<kind, fatal, pos, resume, lost, trace>>
\* the orchestrator: complete the dangling line, restart after that step
Recover == /\ pc = "dead"
           /\ trace' = [trace EXCEPT ![Len(trace)].res = "abort"]
           /\ resume' = trace[Len(trace)].step + 1
           /\ pos' = trace[Len(trace)].step + 1
           /\ lost' = Slot                 \* whatever iterators existed died with the process
           /\ pc' = "run" /\ UNCHANGED <<kind, fatal>>
Next == Exec \/ Skip \/ Finish \/ Recover \/ (pc = "done" /\ UNCHANGED vars)
Spec == Init /\ [][Next]_vars /\ WF_vars(Next)

\* ---- properties ---------------------------------------------------------------------------------
Steps == {trace[i].step : i \in 1..Len(trace)}
InOrderOnce == \A i, j \in 1..Len(trace) : i < j => trace[i].step < trace[j].step
NoDanglingAtEnd == pc = "done" => \A i \in 1..Len(trace) : trace[i].res # "pending"
FatalIsAbort == pc = "done" => \A i \in 1..Len(trace) : (trace[i].res = "abort") <=> (trace[i].step \in fatal)
\* a step without an event is an op of a session that had already lost its iterator
RECURSIVE LostBefore(_, _)
LostBefore(i, s) == \* is slot s without an iterator when step i is reached (per the script and the fatal set)?
  IF i = 1 THEN TRUE
  ELSE LET p == i - 1
           executed == ~(kind[p].t = "op" /\ LostBefore(p, kind[p].slot))
       IN IF (executed /\ p \in fatal) \/ kind[p].t = "par" THEN TRUE   \* the process died at p / a parallel block: every slot is empty
          ELSE IF kind[p].t = "new" /\ kind[p].slot = s THEN FALSE
          ELSE LostBefore(p, s)
Complete == pc = "done" => \A i \in 1..N : (i \notin Steps) <=> (kind[i].t = "op" /\ LostBefore(i, kind[i].slot))
Terminates == <>(pc = "done")
=============================================================================
