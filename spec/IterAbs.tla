----------------------------- MODULE IterAbs -----------------------------
(***************************************************************************)
(* The contract of iter(), range(a,b) and names(): the remaining-sequence  *)
(* machine.  "A double-ended, exact-size, fused iterator over a list" IS   *)
(* this machine: its state is the list of items not yet yielded; every     *)
(* operation is a function (state) -> <<observation, state'>>.             *)
(* Items are opaque here (discriminants for iter/range, names for names).  *)
(*                                                                         *)
(* Operators are pure so that they can be used by the trace specification  *)
(* (on a recorded history), by MC_IterAbs (exhaustive exploration, theorems *)
(* such as fusedness) and by the refinement checks of IterImpl.            *)
(***************************************************************************)
EXTENDS Integers, Sequences, SequencesExt

INone     == [k |-> "none"]
IItem(x)  == [k |-> "item", x |-> x]

\* --- popping operations: <<result, rest'>> ---
OpNext(rest)     == IF rest = <<>> THEN <<INone, <<>>>> ELSE <<IItem(Head(rest)), Tail(rest)>>
OpNextBack(rest) == IF rest = <<>> THEN <<INone, <<>>>> ELSE <<IItem(Last(rest)), Front(rest)>>
\* nth(n): skip n items, yield the next; if fewer than n+1 remain the iterator is emptied
OpNth(rest, n)     == IF n >= Len(rest) THEN <<INone, <<>>>>
                      ELSE <<IItem(rest[n + 1]), SubSeq(rest, n + 2, Len(rest))>>
OpNthBack(rest, n) == IF n >= Len(rest) THEN <<INone, <<>>>>
                      ELSE <<IItem(rest[Len(rest) - n]), SubSeq(rest, 1, Len(rest) - n - 1)>>

\* --- provided methods that leave the iterator alive (built by core on next / try_fold / by_ref) ---
\* find / rfind with a predicate that holds for the (n+1)-th item it is shown: the items before it are
\* consumed, the match is returned, the rest stays -- the same function as nth / nth_back
OpFind(rest, n)  == OpNth(rest, n)
OpRFind(rest, n) == OpNthBack(rest, n)
\* by_ref().take(n).count() / by_ref().rev().take(n).count() / by_ref().take(n).last():
\* min(n, len) items are consumed from that end; the result is their number / the last of them
MinNat(a, b) == IF a < b THEN a ELSE b
OpTakeCount(rest, n)    == LET m == MinNat(n, Len(rest)) IN <<m, SubSeq(rest, m + 1, Len(rest))>>
OpRevTakeCount(rest, n) == LET m == MinNat(n, Len(rest)) IN <<m, SubSeq(rest, 1, Len(rest) - m)>>
OpTakeLast(rest, n)     == LET m == MinNat(n, Len(rest)) IN
                           <<IF m = 0 THEN INone ELSE IItem(rest[m]), SubSeq(rest, m + 1, Len(rest))>>

\* --- observers (state unchanged) ---
ObsLen(rest)      == Len(rest)
ObsSizeHint(rest) == <<Len(rest), Len(rest)>>          \* (lower, Some(upper))

\* --- consuming operations (the iterator is gone afterwards) ---
ConsCollect(rest)  == rest                                \* collect / fold / for-loop order
ConsRevCollect(rest) == Reverse(rest)                     \* rev().collect / rfold order
ConsLast(rest)     == IF rest = <<>> THEN INone ELSE IItem(Last(rest))
ConsCount(rest)    == Len(rest)
\* adaptors built from the primitive operations by core: the contract is what they
\* yield on the plain list
ConsStepBy(rest, k) == [i \in 1..((Len(rest) + k - 1) \div k) |-> rest[(i - 1) * k + 1]]
ConsSkip(rest, k)   == SubSeq(rest, k + 1, Len(rest))
ConsTake(rest, k)   == SubSeq(rest, 1, IF k < Len(rest) THEN k ELSE Len(rest))
ConsRevSkip(rest, k) == Reverse(SubSeq(rest, 1, Len(rest) - k))
ConsMin(rest)       == IF rest = <<>> THEN INone ELSE IItem(Head(rest))   \* lists are ascending
ConsMax(rest)       == IF rest = <<>> THEN INone ELSE IItem(Last(rest))

\* adaptors that ordinary code rarely combines with these iterators (what they yield on the plain list)
ConsRevNth(rest, n)   == OpNthBack(rest, n)[1]                                   \* rev().nth(n)
ConsFirst(rest)       == OpNext(rest)[1]                                         \* min_by_key with a constant key: the first
ConsPartition(rest)   == SelectSeq([i \in 1..Len(rest) |-> <<i, rest[i]>>], LAMBDA p : p[1] % 2 = 1)
                         \o SelectSeq([i \in 1..Len(rest) |-> <<i, rest[i]>>], LAMBDA p : p[1] % 2 = 0)   \* odd positions, then even ones
ConsSkipLen(rest, n)  == IF n < Len(rest) THEN Len(rest) - n ELSE 0              \* skip(n).len()
ConsTakeLen(rest, n)  == MinNat(n, Len(rest))                                    \* take(n).len()
ConsStepByLen(rest, n) == LET k == IF n < 1 THEN 1 ELSE n IN (Len(rest) + k - 1) \div k
\* position / rposition with a predicate that holds for the (n+1)-th item shown: the index from the FRONT, or none
PosResult(len, n)  == IF n < len THEN n ELSE -1
RPosResult(len, n) == IF n < len THEN len - 1 - n ELSE -1

\* --- window representation (used by the trace specification for speed) -----
\* Every reachable state is a contiguous window base[lo..hi] of the initial list.
\* MC_IterAbs checks that the window machine and the sequence machine agree.
Win(base, lo, hi)  == SubSeq(base, lo, hi)
WEmpty             == [lo |-> 1, hi |-> 0]
WNorm(lo, hi)      == IF lo > hi THEN WEmpty ELSE [lo |-> lo, hi |-> hi]
WLen(w)            == w.hi - w.lo + 1
WNext(base, w)     == IF WLen(w) = 0 THEN <<INone, WEmpty>> ELSE <<IItem(base[w.lo]), WNorm(w.lo + 1, w.hi)>>
WNextBack(base, w) == IF WLen(w) = 0 THEN <<INone, WEmpty>> ELSE <<IItem(base[w.hi]), WNorm(w.lo, w.hi - 1)>>
WNth(base, w, n)   == IF n >= WLen(w) THEN <<INone, WEmpty>>
                      ELSE <<IItem(base[w.lo + n]), WNorm(w.lo + n + 1, w.hi)>>
WNthBack(base, w, n) == IF n >= WLen(w) THEN <<INone, WEmpty>>
                        ELSE <<IItem(base[w.hi - n]), WNorm(w.lo, w.hi - n - 1)>>
WTakeCount(w, n)    == LET m == MinNat(n, WLen(w)) IN <<m, WNorm(w.lo + m, w.hi)>>
WRevTakeCount(w, n) == LET m == MinNat(n, WLen(w)) IN <<m, WNorm(w.lo, w.hi - m)>>
WTakeLast(base, w, n) == LET m == MinNat(n, WLen(w)) IN
                         <<IF m = 0 THEN INone ELSE IItem(base[w.lo + m - 1]), WNorm(w.lo + m, w.hi)>>
=============================================================================
