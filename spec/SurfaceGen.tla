---------------------------- MODULE SurfaceGen ----------------------------
(***************************************************************************)
(* Case generator for C15 / C19: enum visibilities x every feature that     *)
(* takes name / vis / struct_name x every documented visibility value x     *)
(* renamed or not, plus feature sets that pull in each helper item.         *)
(* One TLC state per case; Sane checks the expected surface itself.         *)
(***************************************************************************)
EXTENDS Surface
\* ---- case generator ---------------------------------------------------------------------------------
EnumVis == {"private", "up1", "up2", "crate", "public"}
NoVA == [at |-> 0, form |-> "none"]
One(f, ps) == [attrs |-> <<<<IF ps = <<>> THEN E(f, "path", <<>>) ELSE E(f, "list", ps)>>
                           \o (IF f = "range" THEN <<E("iter", "path", <<>>)>> ELSE <<>>)>>, varattr |-> NoVA]
ParamSets(f) ==
  {vp \o np \o sp :
     vp \in {<<>>} \cup {<<P("vis", "str", v)>> : v \in VisValues},
     np \in {<<>>, <<P("name", "str", "renamed_" \o f)>>},
     sp \in IF "struct_name" \in ParamsOf(f) THEN {<<>>, <<P("struct_name", "str", "Renamed" \o f)>>} ELSE {<<>>}}
\* (mode is applied to the string features only; iter modes are exercised by the last case set)
Many(fs, mode) == [attrs |-> <<[i \in 1..Len(fs) |-> IF mode # "" /\ fs[i] \in {"as_str", "from_str", "FromStr"} THEN E(fs[i], "list", <<P("mode", "str", mode)>>) ELSE E(fs[i], "path", <<>>)]>>,
                   varattr |-> NoVA]
HelperSets == {<<"Debug">>, <<"Display", "IntoStr">>, <<"TryFrom">>, <<"FromStr">>, <<"names">>, <<"iter">>, <<"next">>, <<"next_back">>,
               <<"try_from">>, <<"iter", "range">>, <<"as_str", "from_str", "FromStr">>, <<"Into">>,
               <<"as_str", "from_str", "into", "MAX", "MIN", "next", "next_back", "try_from", "Debug", "Display", "FromStr", "Into", "IntoStr", "TryFrom", "iter", "names", "range">>}
Cases ==
  UNION {{[enumvis |-> ev, cfg |-> One(f, ps), gapless |-> g] : ps \in ParamSets(f), ev \in EnumVis, g \in BOOLEAN} : f \in ItemFeatures}
  \cup {[enumvis |-> ev, cfg |-> Many(fs, m), gapless |-> g] : fs \in HelperSets, m \in {"", "table", "match"}, ev \in {"private", "crate", "public"}, g \in BOOLEAN}
  \cup {[enumvis |-> "public", cfg |-> [attrs |-> <<<<E("iter", "list", <<P("mode", "str", m)>>), E("as_str", "path", <<>>)>> \o (IF m = "table_inline" THEN <<>> ELSE <<E("range", "path", <<>>)>>)>>, varattr |-> NoVA],
         gapless |-> g] : m \in {"next_and_back", "table_inline", "range", "table"}, g \in BOOLEAN}

\* Rust itself (E0446) forbids an iterator struct that is more visible than its item type: such a request
\* cannot be honoured by any derive and is outside the property
VisRank(v) == CASE v = "private" -> 0 [] v = "up1" -> 1 [] v = "up2" -> 2 [] v = "crate" -> 3 [] v = "public" -> 4
Compilable(x) == Has(x.cfg, "iter") => VisRank(VisOf(PV(EntryOf(x.cfg, "iter"), "vis"), x.enumvis)) <= VisRank(x.enumvis)
\* pairs of item features: the visibility / name given to ONE must not leak into the OTHER
\* (e.g. iter(vis = "") together with range at its default visibility)
PairCfg(f, pf, g, pg) == [attrs |-> <<<<IF pf = <<>> THEN E(f, "path", <<>>) ELSE E(f, "list", pf),
                                        IF pg = <<>> THEN E(g, "path", <<>>) ELSE E(g, "list", pg)>>
                                      \o (IF "range" \in {f, g} /\ "iter" \notin {f, g} THEN <<E("iter", "path", <<>>)>> ELSE <<>>)>>,
                          varattr |-> NoVA]
PairCases ==
  {[enumvis |-> ev, cfg |-> PairCfg(f, <<P("vis", "str", v)>>, g, <<>>), gapless |-> gl] :
     f \in ItemFeatures, g \in ItemFeatures, v \in VisValues, ev \in {"public", "crate"}, gl \in BOOLEAN}
  \cup {[enumvis |-> "public", cfg |-> PairCfg(f, <<P("vis", "str", v), P("name", "str", "renamed_" \o f)>>, g, <<P("vis", "str", w)>>), gapless |-> gl] :
     f \in {"iter", "names", "MIN", "next"}, g \in {"range", "iter", "MAX", "next_back", "as_str"}, v \in VisValues, w \in VisValues, gl \in BOOLEAN}
\* functions / constants are associated items of the enum, the iterator structs are items of the module: the same
\* identifier may be requested for one of each (and a function may be called like the other feature's default struct)
L2(a, pa, b, pb) == [attrs |-> <<<<E(a, "list", pa)>> \o (IF pb = <<>> THEN <<E(b, "path", <<>>)>> ELSE <<E(b, "list", pb)>>)>>, varattr |-> NoVA]
SameNameCases ==
  {[enumvis |-> ev, cfg |-> cf, gapless |-> gl] : ev \in {"public", "private"}, gl \in BOOLEAN,
     cf \in {[attrs |-> <<<<E("iter", "list", <<P("name", "str", "All"), P("struct_name", "str", "All")>>)>>>>, varattr |-> NoVA],
             [attrs |-> <<<<E("names", "list", <<P("name", "str", "Labels"), P("struct_name", "str", "Labels")>>)>>>>, varattr |-> NoVA],
             L2("iter", <<P("struct_name", "str", "Labels")>>, "names", <<P("name", "str", "Labels")>>),
             L2("names", <<P("name", "str", "EIter")>>, "iter", <<>>),
             L2("iter", <<P("name", "str", "ENames")>>, "names", <<>>),
             L2("MIN", <<P("name", "str", "EIter")>>, "iter", <<>>)}}
\* (user-chosen names that begin with `__` -- the derive's own namespace for hidden helpers -- are not demanded: a refactoring
\*  that introduces a new hidden helper must stay possible)
StdCases == Cases \cup SameNameCases \cup {x \in PairCases : \A p, q \in Entries(x.cfg) : p # q => EntryAt(x.cfg, p).f # EntryAt(x.cfg, q).f}
\* shape-specific code paths may emit their own helper items: the same feature sets on an enum with many runs
\* (12 singletons, i16) and on a large gapless enum (70 variants, i8 from -35); `shape` only selects the rendered body
Sh(x, sh) == [enumvis |-> x.enumvis, cfg |-> x.cfg, gapless |-> x.gapless, shape |-> sh]
ShapeBase ==
  UNION {{[enumvis |-> "public", cfg |-> One(f, ps), gapless |-> g] : ps \in {<<>>, <<P("vis", "str", "")>>}, g \in BOOLEAN} : f \in ItemFeatures}
  \cup {[enumvis |-> "public", cfg |-> Many(fs, m), gapless |-> g] : fs \in HelperSets, m \in {"", "table", "match"}, g \in BOOLEAN}
  \cup {[enumvis |-> "public", cfg |-> [attrs |-> <<<<E("iter", "list", <<P("mode", "str", m)>>), E("try_from", "path", <<>>)>> \o (IF m = "table_inline" THEN <<>> ELSE <<E("range", "path", <<>>)>>)>>, varattr |-> NoVA],
         gapless |-> g] : m \in {"next_and_back", "table_inline", "range", "table"}, g \in BOOLEAN}
AllCases == {Sh(x, "std") : x \in StdCases} \cup {Sh(x, IF x.gapless THEN "big" ELSE "runs") : x \in ShapeBase}

VARIABLE c
Init == c \in {x \in AllCases : Legal(x.cfg, x.gapless) /\ Compilable(x)}
Stutter == UNCHANGED c
Spec == Init /\ [][Stutter]_c
\* the expected surface never asks for the same name twice and every helper-free observation is accepted
Sane == /\ \A u, v \in UserItems(c) : u.name = v.name => u = v
        /\ SurfaceOK(c, [items |-> UserItems(c), structs |-> UserStructs(c), traits |-> UserTraits(c)])
Emit == PrintT(<<"CASE", ToJson(c)>>)
=============================================================================
