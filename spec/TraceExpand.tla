---------------------------- MODULE TraceExpand ----------------------------
(***************************************************************************)
(* Judge for C17 (expansion is deterministic).  The derive is expanded in   *)
(* K fresh compiler processes (each has its own hash seeds); per case and   *)
(* process one event  [ev |-> "expansion", case, run, sha]  carries the      *)
(* digest of the expanded code of that case.  Events of one case are        *)
(* consecutive.  Property: all digests of a case are equal.                 *)
(* (The specification-level statement is that the output is a FUNCTION of    *)
(* the declaration: the abstract derive of Abs / Pipeline has no state that  *)
(* survives an invocation and no unordered collection in its output.)        *)
(***************************************************************************)
EXTENDS Integers, Sequences, TLC, Json, IOUtils

Rec == ndJsonDeserialize(IOEnv.TRACE)
VARIABLES l, cur
Init == l = 1 /\ cur = [case |-> -1, sha |-> "", reported |-> FALSE]
Step ==
  /\ l <= Len(Rec) /\ l' = l + 1
  /\ LET e == Rec[l] IN
     IF e.case # cur.case THEN cur' = [case |-> e.case, sha |-> e.sha, reported |-> FALSE]
     ELSE IF e.sha # cur.sha /\ ~cur.reported
          THEN /\ PrintT(<<"VIOL", ToJson([line |-> l, case |-> e.case, props |-> {"C17"},
                                           why |-> "two compiler processes expanded the same declaration differently",
                                           msg |-> e.sha])>>)
               /\ cur' = [cur EXCEPT !.reported = TRUE]
          ELSE UNCHANGED cur
Spec == Init /\ [][Step]_<<l, cur>>
Consumed == IF TLCGet("stats").diameter - 1 = Len(Rec) THEN PrintT(<<"CONSUMED", Len(Rec)>>)
            ELSE PrintT(<<"STUCK", TLCGet("stats").diameter>>) /\ FALSE
=============================================================================
