//! Generic runner for the run-time conformance corpus.
//!
//! This crate is part of the verification harness (trusted base), it contains nothing of the code
//! under test.  A generated corpus binary links it, registers its cases (`Case` = the derived items
//! of one enum behind plain `fn` pointers) and calls [`main`], which executes a script and writes one
//! ndjson event per call *at the call's return* (including the panic path).
//!
//! All integer observations are written in **model coordinates** (see spec/Prim.tla): the script
//! carries the order-embedding of the repr type into TLC's 32-bit integers as a cluster table.
//!
//! An event line is written in two parts: everything except the result before the call, the result
//! after it.  When the process dies inside a call (rustc's UB-check panics are non-unwinding, Miri
//! aborts), the orchestrator completes the dangling line with `"res":{"k":"abort"}` and restarts the
//! runner after that step.

use std::cell::RefCell;
use std::fs::{File, OpenOptions};
use std::io::{BufRead, BufReader, Write};
use std::iter::FusedIterator;
use std::panic::{catch_unwind, AssertUnwindSafe};

pub type Bits = u128;

/// number of iterator slots of a case (iterators alive at the same time)
pub const SLOTS: usize = 4;

/// An observation.
#[derive(Clone, Debug)]
pub enum Obs {
    None,
    Val(Bits),
    Str(String),
    Len(usize),
    Hint(usize, Option<usize>),
    Seq(Vec<Obs>),
    Pair(Bits, String),
    Ok,
}

pub trait DynIt {
    fn next(&mut self) -> Obs;
    fn next_back(&mut self) -> Obs;
    fn nth(&mut self, n: usize) -> Obs;
    fn nth_back(&mut self, n: usize) -> Obs;
    fn len(&self) -> Obs;
    fn size_hint(&self) -> Obs;
    /// operations through `by_ref()` and the searching adaptors (provided methods of `Iterator` that
    /// are built on `next` / `try_fold`): the iterator stays alive
    fn other(&mut self, op: &str, n: usize) -> Obs;
    fn end(self: Box<Self>, op: &str, n: usize) -> Obs;
}

fn other_op<T, I, F>(it: &mut I, f: &F, op: &str, n: usize) -> Obs
where
    I: Iterator<Item = T> + DoubleEndedIterator + ExactSizeIterator + FusedIterator,
    F: Fn(T) -> Obs,
{
    let mut c = 0usize;
    match op {
        // the predicate holds for the (n+1)-th item it is shown: find == nth, rfind == nth_back
        "find" => o(f, it.find(|_| {
            c += 1;
            c > n
        })),
        "rfind" => o(f, it.rfind(|_| {
            c += 1;
            c > n
        })),
        "take_count" => Obs::Len(it.by_ref().take(n).count()),
        "rev_take_count" => Obs::Len(it.by_ref().rev().take(n).count()),
        "take_last" => o(f, it.by_ref().take(n).last()),
        // position / rposition with a counting predicate: Some(index from the front) of the (n+1)-th item shown
        "position" => match it.position(|_| {
            c += 1;
            c > n
        }) {
            Some(i) => Obs::Len(i),
            None => Obs::None,
        },
        "rposition" => match it.rposition(|_| {
            c += 1;
            c > n
        }) {
            Some(i) => Obs::Len(i),
            None => Obs::None,
        },
        // through a trait object: the vtable entries of the overridden methods
        "dyn_nth" => {
            let d: &mut dyn Iterator<Item = T> = it;
            o(f, d.nth(n))
        }
        "dyn_nth_back" => {
            let d: &mut dyn DoubleEndedIterator<Item = T> = it;
            o(f, d.nth_back(n))
        }
        _ => panic!("rt: unknown op {op}"),
    }
}

/// Adapter around a derived iterator.  The trait bounds are the documented ones (C06/C19): the glue
/// does not compile unless the struct implements all four traits.
pub struct It<I, F>(pub I, pub F);

/// Adapter for iterators whose items are ordered (`names()`): additionally supports `min` / `max`.
pub struct ItOrd<I, F>(pub I, pub F);

fn o<T, F: Fn(T) -> Obs>(f: &F, x: Option<T>) -> Obs {
    match x {
        None => Obs::None,
        Some(v) => f(v),
    }
}

impl<T, I, F> DynIt for It<I, F>
where
    I: Iterator<Item = T> + DoubleEndedIterator + ExactSizeIterator + FusedIterator,
    F: Fn(T) -> Obs,
{
    fn next(&mut self) -> Obs {
        let x = self.0.next();
        o(&self.1, x)
    }
    fn next_back(&mut self) -> Obs {
        let x = self.0.next_back();
        o(&self.1, x)
    }
    fn nth(&mut self, n: usize) -> Obs {
        let x = self.0.nth(n);
        o(&self.1, x)
    }
    fn nth_back(&mut self, n: usize) -> Obs {
        let x = self.0.nth_back(n);
        o(&self.1, x)
    }
    fn len(&self) -> Obs {
        Obs::Len(ExactSizeIterator::len(&self.0))
    }
    fn size_hint(&self) -> Obs {
        let (a, b) = self.0.size_hint();
        Obs::Hint(a, b)
    }
    fn other(&mut self, op: &str, n: usize) -> Obs {
        other_op(&mut self.0, &self.1, op, n)
    }
    fn end(self: Box<Self>, op: &str, n: usize) -> Obs {
        let It(it, f) = *self;
        match op {
            "fold" => Obs::Seq(it.fold(Vec::new(), |mut v, x| {
                v.push(f(x));
                v
            })),
            "rfold" => Obs::Seq(it.rfold(Vec::new(), |mut v, x| {
                v.push(f(x));
                v
            })),
            "collect" => Obs::Seq(it.map(|x| f(x)).collect()),
            "rev_collect" => Obs::Seq(it.rev().map(|x| f(x)).collect()),
            "for_each" => {
                let mut v = Vec::new();
                for x in it {
                    v.push(f(x));
                }
                Obs::Seq(v)
            }
            "last" => o(&f, it.last()),
            "count" => Obs::Len(it.count()),
            "step_by" => Obs::Seq(it.step_by(n).map(|x| f(x)).collect()),
            "skip" => Obs::Seq(it.skip(n).map(|x| f(x)).collect()),
            "take" => Obs::Seq(it.take(n).map(|x| f(x)).collect()),
            "rev_skip" => Obs::Seq(it.rev().skip(n).map(|x| f(x)).collect()),
            // adaptors that ordinary code rarely combines with these iterators
            "rev_nth" => o(&f, it.rev().nth(n)),
            "peek_collect" => {
                let mut p = it.peekable();
                let _ = p.peek();
                Obs::Seq(p.map(|x| f(x)).collect())
            }
            "max_by_key0" => o(&f, it.max_by_key(|_| 0u8)),
            "min_by_key0" => o(&f, it.min_by_key(|_| 0u8)),
            "partition" => {
                let mut k = 0usize;
                let (a, b): (Vec<T>, Vec<T>) = it.partition(|_| {
                    k += 1;
                    k % 2 == 1
                });
                Obs::Seq(a.into_iter().chain(b).map(|x| f(x)).collect())
            }
            // lengths reported through adaptors (ExactSizeIterator::len and size_hint of the wrapped iterator)
            "rev_len" => Obs::Len(it.rev().len()),
            "skip_len" => Obs::Len(it.skip(n).len()),
            "take_len" => Obs::Len(it.take(n).len()),
            "step_by_len" => Obs::Len(it.step_by(n.max(1)).len()),
            "chain_hint" => {
                let (a, b) = it.chain(None).size_hint();
                Obs::Hint(a, b)
            }
            "zip_hint" => {
                let (a, b) = it.zip(0u64..).size_hint();
                Obs::Hint(a, b)
            }
            _ => panic!("rt: unknown consuming op {op}"),
        }
    }
}

impl<T, I, F> DynIt for ItOrd<I, F>
where
    I: Iterator<Item = T> + DoubleEndedIterator + ExactSizeIterator + FusedIterator,
    F: Fn(T) -> Obs,
    T: Ord,
{
    fn next(&mut self) -> Obs {
        let x = self.0.next();
        o(&self.1, x)
    }
    fn next_back(&mut self) -> Obs {
        let x = self.0.next_back();
        o(&self.1, x)
    }
    fn nth(&mut self, n: usize) -> Obs {
        let x = self.0.nth(n);
        o(&self.1, x)
    }
    fn nth_back(&mut self, n: usize) -> Obs {
        let x = self.0.nth_back(n);
        o(&self.1, x)
    }
    fn len(&self) -> Obs {
        Obs::Len(ExactSizeIterator::len(&self.0))
    }
    fn size_hint(&self) -> Obs {
        let (a, b) = self.0.size_hint();
        Obs::Hint(a, b)
    }
    fn other(&mut self, op: &str, n: usize) -> Obs {
        other_op(&mut self.0, &self.1, op, n)
    }
    fn end(self: Box<Self>, op: &str, n: usize) -> Obs {
        let ItOrd(it, f) = *self;
        match op {
            "min" => o(&f, it.min()),
            "max" => o(&f, it.max()),
            _ => Box::new(It(it, f)).end(op, n),
        }
    }
}

/// The derived items of one enum.  Variant arguments are indices into `variants` (declaration order).
#[derive(Default)]
pub struct Case {
    pub id: u32,
    pub signed: bool,
    /// (identifier, `V as repr` sign-extended to 128 bit) in declaration order
    pub variants: Vec<(&'static str, Bits)>,
    pub try_from: Option<fn(Bits) -> Option<Bits>>,
    pub try_from_t: Option<fn(Bits) -> Option<Bits>>,
    pub into: Option<fn(usize) -> Bits>,
    pub into_t: Option<fn(usize) -> Bits>,
    pub as_str: Option<fn(usize) -> String>,
    pub display: Option<fn(usize) -> String>,
    pub debug: Option<fn(usize) -> String>,
    pub into_str: Option<fn(usize) -> String>,
    pub from_str: Option<fn(&str) -> Option<Bits>>,
    pub from_str_t: Option<fn(&str) -> Option<Bits>>,
    pub min: Option<fn() -> Bits>,
    pub max: Option<fn() -> Bits>,
    pub next: Option<fn(usize) -> Option<Bits>>,
    pub next_back: Option<fn(usize) -> Option<Bits>>,
    pub iter: Option<fn() -> Box<dyn DynIt>>,
    pub range: Option<fn(usize, usize) -> Box<dyn DynIt>>,
    pub names: Option<fn() -> Box<dyn DynIt>>,
    pub zip: Option<fn() -> Vec<(Bits, String)>>,
}

// ------------------------------------------------------------------------------------------------
// projection real value -> model coordinate

struct Proj {
    signed: bool,
    /// (key_lo, key_hi, model_base), ascending
    clusters: Vec<(u128, u128, i64)>,
}

impl Proj {
    fn key(&self, bits: Bits) -> u128 {
        if self.signed {
            bits ^ (1u128 << 127)
        } else {
            bits
        }
    }
    fn model(&self, bits: Bits) -> i64 {
        let k = self.key(bits);
        let mut last_top = i64::MIN;
        for &(lo, hi, base) in &self.clusters {
            if k < lo {
                // far value between two clusters (or below the first): one representative
                return base - 1;
            }
            if k <= hi {
                return base + (k - lo) as i64;
            }
            last_top = base + (hi - lo) as i64;
        }
        last_top + 1
    }
}

// ------------------------------------------------------------------------------------------------
// output

fn cps(s: &str) -> String {
    let v: Vec<String> = s.chars().map(|c| (c as u32).to_string()).collect();
    format!("[{}]", v.join(","))
}

struct Ctx<'a> {
    proj: &'a Proj,
    case: &'a Case,
}

impl Ctx<'_> {
    fn is_variant(&self, b: Bits) -> bool {
        self.case.variants.iter().any(|(_, d)| *d == b)
    }
    fn val(&self, b: Bits) -> String {
        if self.is_variant(b) {
            format!("{{\"k\":\"val\",\"v\":{}}}", self.proj.model(b))
        } else {
            // a produced enum value that is not a declared variant (C02)
            format!("{{\"k\":\"invalid\",\"raw\":\"{:#x}\"}}", b)
        }
    }
    /// `enumval`: integers in this observation are enum values (must be declared variants)
    fn obs(&self, o: &Obs, enumval: bool) -> String {
        match o {
            Obs::None => "{\"k\":\"none\"}".to_string(),
            Obs::Val(b) => {
                if enumval {
                    self.val(*b)
                } else {
                    format!("{{\"k\":\"val\",\"v\":{}}}", self.proj.model(*b))
                }
            }
            Obs::Str(s) => format!("{{\"k\":\"str\",\"s\":{}}}", cps(s)),
            Obs::Len(n) => format!("{{\"k\":\"len\",\"n\":{}}}", clamp(*n)),
            Obs::Hint(a, b) => match b {
                Some(b) => format!("{{\"k\":\"hint\",\"lo\":{},\"hi\":{}}}", clamp(*a), clamp(*b)),
                None => format!("{{\"k\":\"hint\",\"lo\":{},\"hi\":-1}}", clamp(*a)),
            },
            Obs::Seq(v) => {
                // an invalid element makes the whole observation invalid (tag must be visible at top level)
                if enumval && v.iter().any(|x| matches!(x, Obs::Val(b) if !self.is_variant(*b))) {
                    return "{\"k\":\"invalid\",\"raw\":\"in sequence\"}".to_string();
                }
                let parts: Vec<String> = v.iter().map(|x| self.obs(x, enumval)).collect();
                format!("{{\"k\":\"seq\",\"q\":[{}]}}", parts.join(","))
            }
            Obs::Pair(b, s) => {
                if self.is_variant(*b) {
                    format!("{{\"k\":\"pair\",\"v\":{},\"s\":{}}}", self.proj.model(*b), cps(s))
                } else {
                    format!("{{\"k\":\"invalid\",\"raw\":\"{:#x}\"}}", b)
                }
            }
            Obs::Ok => "{\"k\":\"ok\"}".to_string(),
        }
    }
}

fn clamp(n: usize) -> i64 {
    if n > 1_000_000_000 {
        1_000_000_000
    } else {
        n as i64
    }
}

thread_local! {
    static LAST_PANIC: RefCell<String> = RefCell::new(String::new());
}

/// Number of steps begun so far (a parallel block is one step).  A watchdog thread ends the process when one step
/// runs longer than RT_STEP_TIMEOUT seconds (default 60): code under test that does not terminate -- an iterator that
/// never returns None under `collect`, a `next` cycle -- must not stall the whole check; the orchestrator completes the
/// dangling event line like after any other death of the process and resumes after that step.
static BEAT: std::sync::atomic::AtomicU64 = std::sync::atomic::AtomicU64::new(0);

fn start_watchdog() {
    if cfg!(miri) {
        return; // Miri wants every thread joined at exit; its runs are bounded by the orchestrator's process timeout
    }
    let limit: u64 = std::env::var("RT_STEP_TIMEOUT").ok().and_then(|s| s.parse().ok()).unwrap_or(60);
    std::thread::spawn(move || {
        let mut last = u64::MAX;
        let mut since = std::time::Instant::now();
        loop {
            std::thread::sleep(std::time::Duration::from_millis(250));
            let b = BEAT.load(std::sync::atomic::Ordering::Relaxed);
            if b != last {
                last = b;
                since = std::time::Instant::now();
            } else if b > 0 && since.elapsed().as_secs() >= limit {
                eprintln!("RT-TIMEOUT: step {b} runs longer than {limit} s");
                std::process::exit(3);
            }
        }
    });
}

fn jstr(s: &str) -> String {
    let mut out = String::from("\"");
    for c in s.chars() {
        match c {
            '"' => out.push_str("\\\""),
            '\\' => out.push_str("\\\\"),
            c if (c as u32) < 0x20 => out.push(' '),
            c => out.push(c),
        }
    }
    out.push('"');
    out
}

fn guarded<F: FnOnce() -> String>(f: F) -> String {
    match catch_unwind(AssertUnwindSafe(f)) {
        Ok(s) => s,
        Err(_) => {
            let msg = LAST_PANIC.with(|m| m.borrow().clone());
            format!("{{\"k\":\"panic\",\"msg\":{}}}", jstr(&msg))
        }
    }
}

// ------------------------------------------------------------------------------------------------
// script

fn parse_bits(s: &str) -> Bits {
    s.parse::<u128>().unwrap_or_else(|_| panic!("rt: bad bits {s}"))
}

fn idx_of(case: &Case, bits: Bits) -> usize {
    case.variants
        .iter()
        .position(|(_, d)| *d == bits)
        .unwrap_or_else(|| panic!("rt: script names a discriminant that is not declared: {bits}"))
}

trait Sink {
    fn w(&mut self, s: &str);
}
struct Out {
    f: File,
}
impl Sink for Out {
    fn w(&mut self, s: &str) {
        self.f.write_all(s.as_bytes()).expect("rt: write trace");
    }
}
/// events of one thread of a parallel block, written to the trace after the threads were joined
impl Sink for String {
    fn w(&mut self, s: &str) {
        self.push_str(s);
    }
}

/// Executes one script step (a pure call, an iterator constructor, an operation on the iterator of a
/// slot) and writes its event: everything except the result before the call, the result after it.
#[allow(clippy::too_many_arguments)]
fn exec_step(
    t: &[&str],
    slot: usize,
    step: usize,
    sig: &str,
    kind: &str,
    case: &Case,
    proj: &Proj,
    its: &mut Vec<Option<(Box<dyn DynIt>, bool)>>,
    strbuf: &mut String,
    out: &mut dyn Sink,
) {
    let cx = Ctx { proj, case };
    match kind {
        "call" => {
            let f = t[3];
            let pre = |a: i64, s: &str| format!("{{\"ev\":\"call\",\"case\":{},\"step\":{step},\"sig\":\"{sig}\",\"fn\":\"{f}\",\"a\":{a},\"s\":{s},", case.id);
            macro_rules! vcall {
                ($field:ident, $conv:expr) => {{
                    if let Some(func) = case.$field {
                        let b = parse_bits(t[4]);
                        let i = idx_of(case, b);
                        out.w(&pre(proj.model(b), "[]"));
                        let r = guarded(|| $conv(&cx, func(i)));
                        out.w(&format!("\"res\":{r}}}\n"));
                    }
                }};
            }
            let optval = |cx: &Ctx, r: Option<Bits>| match r {
                None => cx.obs(&Obs::None, true),
                Some(b) => cx.val(b),
            };
            match f {
                "try_from" | "try_from_t" => {
                    let func = if f == "try_from" { case.try_from } else { case.try_from_t };
                    if let Some(func) = func {
                        let b = parse_bits(t[4]);
                        out.w(&pre(proj.model(b), "[]"));
                        let r = guarded(|| optval(&cx, func(b)));
                        out.w(&format!("\"res\":{r}}}\n"));
                    }
                }
                "into" => vcall!(into, |cx: &Ctx, b: Bits| cx.obs(&Obs::Val(b), false)),
                "into_t" => vcall!(into_t, |cx: &Ctx, b: Bits| cx.obs(&Obs::Val(b), false)),
                "as_str" => vcall!(as_str, |cx: &Ctx, s: String| cx.obs(&Obs::Str(s), false)),
                "display" => vcall!(display, |cx: &Ctx, s: String| cx.obs(&Obs::Str(s), false)),
                "debug" => vcall!(debug, |cx: &Ctx, s: String| cx.obs(&Obs::Str(s), false)),
                "into_str" => vcall!(into_str, |cx: &Ctx, s: String| cx.obs(&Obs::Str(s), false)),
                "next" => vcall!(next, optval),
                "next_back" => vcall!(next_back, optval),
                "from_str" | "from_str_t" => {
                    let func = if f == "from_str" { case.from_str } else { case.from_str_t };
                    if let Some(func) = func {
                        // every string is passed through ONE reused buffer: same address (and often the same
                        // length) as the string of an earlier call, other bytes
                        strbuf.clear();
                        strbuf.extend(t[4..].iter().filter(|x| !x.is_empty()).map(|x| char::from_u32(x.parse().unwrap()).unwrap()));
                        let s: &str = &strbuf;
                        out.w(&pre(0, &cps(s)));
                        let r = guarded(|| optval(&cx, func(s)));
                        out.w(&format!("\"res\":{r}}}\n"));
                    }
                }
                "min" | "max" => {
                    let func = if f == "min" { case.min } else { case.max };
                    if let Some(func) = func {
                        out.w(&pre(0, "[]"));
                        let r = guarded(|| cx.val(func()));
                        out.w(&format!("\"res\":{r}}}\n"));
                    }
                }
                "zip" => {
                    if let Some(func) = case.zip {
                        out.w(&pre(0, "[]"));
                        let r = guarded(|| {
                            let v: Vec<Obs> = func().into_iter().map(|(b, s)| Obs::Pair(b, s)).collect();
                            if v.iter().any(|x| matches!(x, Obs::Pair(b, _) if !cx.is_variant(*b))) {
                                "{\"k\":\"invalid\",\"raw\":\"in zip\"}".to_string()
                            } else {
                                cx.obs(&Obs::Seq(v), false)
                            }
                        });
                        out.w(&format!("\"res\":{r}}}\n"));
                    }
                }
                _ => panic!("rt: unknown call {f}"),
            }
        }
        "new" => {
            its[slot] = None;
            let src = t[3];
            let (a, b) = if src == "range" { (parse_bits(t[4]), parse_bits(t[5])) } else { (0, 0) };
            let present = match src {
                "iter" => case.iter.is_some(),
                "range" => case.range.is_some(),
                "names" => case.names.is_some(),
                _ => panic!("rt: unknown iterator source {src}"),
            };
            if !present {
                return;
            }
            let (ma, mb) = if src == "range" { (proj.model(a), proj.model(b)) } else { (0, 0) };
            out.w(&format!("{{\"ev\":\"it_new\",\"case\":{},\"step\":{step},\"sig\":\"{sig}\",\"src\":\"{src}\",\"slot\":{slot},\"a\":{ma},\"b\":{mb},", case.id));
            let made = catch_unwind(AssertUnwindSafe(|| match src {
                "iter" => (case.iter.unwrap())(),
                "names" => (case.names.unwrap())(),
                _ => (case.range.unwrap())(idx_of(case, a), idx_of(case, b)),
            }));
            match made {
                Ok(i) => {
                    its[slot] = Some((i, src == "names"));
                    out.w("\"res\":{\"k\":\"ok\"}}\n");
                }
                Err(_) => {
                    let msg = LAST_PANIC.with(|m| m.borrow().clone());
                    out.w(&format!("\"res\":{{\"k\":\"panic\",\"msg\":{}}}}}\n", jstr(&msg)));
                }
            }
        }
        "op" | "end" => {
            if its[slot].is_none() {
                return;
            }
            let op = t[3];
            let n: usize = if t.len() > 4 {
                if t[4] == "max" { usize::MAX } else { t[4].parse().unwrap() }
            } else {
                0
            };
            let ev = if kind == "op" { "it_op" } else { "it_end" };
            out.w(&format!("{{\"ev\":\"{ev}\",\"case\":{},\"step\":{step},\"sig\":\"{sig}\",\"op\":\"{op}\",\"slot\":{slot},\"n\":{},", case.id, clamp(n)));
            let enumval = !its[slot].as_ref().unwrap().1;
            let r = if kind == "op" {
                let i = &mut its[slot].as_mut().unwrap().0;
                guarded(|| {
                    let o = match op {
                        "next" => i.next(),
                        "next_back" => i.next_back(),
                        "nth" => i.nth(n),
                        "nth_back" => i.nth_back(n),
                        "len" => i.len(),
                        "size_hint" => i.size_hint(),
                        _ => i.other(op, n),
                    };
                    cx.obs(&o, enumval)
                })
            } else {
                let i = its[slot].take().unwrap().0;
                guarded(|| cx.obs(&i.end(op, n), enumval))
            };
            let panicked = r.starts_with("{\"k\":\"panic\"");
            out.w(&format!("\"res\":{r}}}\n"));
            if panicked {
                // the iterator may be in an inconsistent state after a panic
                its[slot] = None;
            }
        }
        _ => panic!("rt: unknown step kind {kind}"),
    }
}

/// Entry point of a corpus binary.
/// args: <script> <trace-out> [<resume-case-id> <resume-step>]
pub fn main(cases: Vec<fn() -> Case>) {
    let args: Vec<String> = std::env::args().collect();
    if args.len() < 3 {
        eprintln!("usage: {} <script> <trace> [<case> <step>]", args[0]);
        std::process::exit(2);
    }
    std::panic::set_hook(Box::new(|info| {
        let msg = if let Some(s) = info.payload().downcast_ref::<&str>() {
            s.to_string()
        } else if let Some(s) = info.payload().downcast_ref::<String>() {
            s.clone()
        } else {
            "panic".to_string()
        };
        // messages of rustc's (non-unwinding) UB checks and of the runner itself go to stderr
        if msg.starts_with("rt:") || msg.contains("unsafe precondition") || msg.contains("invalid value") {
            eprintln!("RT-FATAL: {msg}");
        }
        LAST_PANIC.with(|m| *m.borrow_mut() = msg);
    }));
    start_watchdog();
    let resume: Option<(u32, usize)> = if args.len() >= 5 {
        Some((args[3].parse().unwrap(), args[4].parse().unwrap()))
    } else {
        None
    };
    let mut out = Out {
        f: OpenOptions::new().create(true).append(true).open(&args[2]).expect("rt: open trace"),
    };
    let cases: Vec<Case> = cases.into_iter().map(|f| f()).collect();
    // the script may define blocks (`block <id>` .. `endblock`) that several cases `use`
    let mut blocks: std::collections::HashMap<String, Vec<String>> = std::collections::HashMap::new();
    let mut top: Vec<String> = Vec::new();
    {
        let script = BufReader::new(File::open(&args[1]).expect("rt: open script"));
        let mut open_block: Option<String> = None;
        for line in script.lines() {
            let line = line.expect("rt: read script");
            if let Some(id) = line.strip_prefix("block ") {
                open_block = Some(id.to_string());
                blocks.insert(id.to_string(), Vec::new());
            } else if line == "endblock" {
                open_block = None;
            } else if let Some(id) = &open_block {
                blocks.get_mut(id).unwrap().push(line);
            } else {
                top.push(line);
            }
        }
    }
    let flat = top.iter().flat_map(|l| -> Box<dyn Iterator<Item = &String>> {
        if let Some(id) = l.strip_prefix("use ") {
            Box::new(blocks.get(id).unwrap_or_else(|| panic!("rt: unknown block {id}")).iter())
        } else {
            Box::new(std::iter::once(l))
        }
    });

    let mut skipping_case = resume.is_some();
    let mut cur: Option<&Case> = None;
    let mut proj = Proj { signed: false, clusters: Vec::new() };
    let mut names: Vec<(String, Option<String>)> = Vec::new();
    let mut header: Vec<String> = Vec::new();
    let mut declared = false;
    let mut step = 0usize;
    let mut resume_step = 0usize;
    // iterator slots: several iterators may be alive at once and are operated alternately (a step
    // names its slot by a trailing `@k` token, default 0); a slot is empty when its session never
    // started (feature absent, constructor panicked), lost its iterator (panic inside an operation,
    // the process died) or was consumed -- operations on an empty slot are skipped
    let mut its: Vec<Option<(Box<dyn DynIt>, bool)>> = (0..SLOTS).map(|_| None).collect();
    let mut absent = false; // the current case is not in this binary
    let mut strbuf = String::with_capacity(1 << 16);
    // parallel block being collected: lines still to come, its sig and step, (thread, line)
    let mut par_left = 0usize;
    let mut par_sig = String::new();
    let mut par_prog: Vec<(usize, String)> = Vec::new();

    for line in flat {
        let mut t: Vec<&str> = line.split(' ').collect();
        let mut slot = 0usize;
        if t[0] == "s" {
            if let Some(k) = t.last().and_then(|x| x.strip_prefix('@')) {
                slot = k.parse().unwrap_or_else(|_| panic!("rt: bad slot in {line}"));
                assert!(slot < SLOTS, "rt: slot out of range in {line}");
                t.pop();
            }
        }
        match t[0] {
            "case" => {
                // case <id> <grp> <gprop> <tmin> <tmax>
                let id: u32 = t[1].parse().unwrap();
                cur = cases.iter().find(|c| c.id == id);
                if cur.is_none() {
                    // the case was removed from this binary (it does not compile): skip its steps
                    absent = true;
                    continue;
                }
                absent = false;
                header = t.iter().map(|s| s.to_string()).collect();
                proj = Proj { signed: cur.unwrap().signed, clusters: Vec::new() };
                names.clear();
                declared = false;
                step = 0;
                par_left = 0;
                for x in its.iter_mut() {
                    *x = None;
                }
                if let Some((rc, rs)) = resume {
                    if skipping_case && rc == id {
                        skipping_case = false;
                        resume_step = rs;
                    } else if !skipping_case {
                        resume_step = 0;
                    }
                }
            }
            _ if absent => {}
            "cl" => proj.clusters.push((t[1].parse().unwrap(), t[2].parse().unwrap(), t[3].parse().unwrap())),
            "name" => {
                // name <ident> R <cp>*   (the variant has a rename attribute with this string)
                // name <ident> -         (it has none)
                let ren = if t[2] == "R" {
                    Some(t[3..].iter().filter(|x| !x.is_empty()).map(|x| char::from_u32(x.parse().unwrap()).unwrap()).collect::<String>())
                } else {
                    None
                };
                names.push((t[1].to_string(), ren));
            }
            "s" => {
                if skipping_case {
                    continue;
                }
                let case = cur.expect("rt: step before case");
                step += 1;
                let sig = t[1];
                let kind = t[2];
                if step < resume_step {
                    continue;
                }
                if step == resume_step && resume_step > 0 {
                    // resuming: the decl event was already written by the previous process;
                    // an interrupted iterator session is abandoned
                    declared = true;
                }
                if !declared {
                    // decl event: discriminants as the compiler assigned them, ascending
                    let mut vs: Vec<(i64, &str)> = case.variants.iter().map(|(n, d)| (proj.model(*d), *n)).collect();
                    vs.sort();
                    let discs: Vec<String> = vs.iter().map(|(d, _)| d.to_string()).collect();
                    // the declaration as written: identifier and rename attribute of every variant
                    // (what the variant's NAME is, is the specification's business: Abs!NameOf)
                    let ids: Vec<String> = vs.iter().map(|(_, id)| cps(id)).collect();
                    let rens: Vec<String> = vs
                        .iter()
                        .map(|(_, id)| {
                            let nm = names.iter().find(|(i, _)| i == id).unwrap_or_else(|| panic!("rt: no name line for {id}"));
                            match &nm.1 {
                                Some(r) => format!("{{\"k\":\"some\",\"s\":{}}}", cps(r)),
                                None => "{\"k\":\"none\"}".to_string(),
                            }
                        })
                        .collect();
                    out.w(&format!(
                        "{{\"ev\":\"decl\",\"case\":{},\"grp\":\"{}\",\"gprop\":\"{}\",\"tmin\":{},\"tmax\":{},\"discs\":[{}],\"idents\":[{}],\"renames\":[{}]}}\n",
                        case.id, header[2], if header[3] == "-" { "" } else { &header[3] }, header[4], header[5], discs.join(","), ids.join(","), rens.join(",")
                    ));
                    declared = true;
                }
                if kind == "par" {
                    // s <sig> par <n>: the next n `p <thread> <sig> <kind> ...` lines are run by concurrent threads
                    par_left = t[3].parse().unwrap();
                    par_sig = sig.to_string();
                    par_prog.clear();
                    // the threads own their iterators; the sequential slots do not survive the block
                    for x in its.iter_mut() {
                        *x = None;
                    }
                    if par_left == 0 {
                        panic!("rt: empty par block");
                    }
                    continue;
                }
                BEAT.fetch_add(1, std::sync::atomic::Ordering::Relaxed);
                exec_step(&t, slot, step, sig, kind, case, &proj, &mut its, &mut strbuf, &mut out);
            }
            "p" => {
                // p <thread> <sig> <kind> ...   one step of a thread of the parallel block announced by `s <sig> par <n>`
                if skipping_case || par_left == 0 {
                    continue; // the block's own step was skipped (resume after an abort)
                }
                par_prog.push((t[1].parse().unwrap(), line.to_string()));
                par_left -= 1;
                if par_left == 0 {
                    let case = cur.expect("rt: p before case");
                    let nthreads = par_prog.iter().map(|(k, _)| *k).max().unwrap() + 1;
                    assert!(nthreads <= SLOTS, "rt: too many threads");
                    out.w(&format!("{{\"ev\":\"par\",\"case\":{},\"step\":{step},\"sig\":\"{par_sig}\",\"threads\":{nthreads},", case.id));
                    BEAT.fetch_add(1, std::sync::atomic::Ordering::Relaxed);
                    let barrier = std::sync::Barrier::new(nthreads);
                    let bufs: Vec<String> = std::thread::scope(|sc| {
                        let handles: Vec<_> = (0..nthreads)
                            .map(|tid| {
                                let prog: Vec<&String> = par_prog.iter().filter(|(k, _)| *k == tid).map(|(_, l)| l).collect();
                                let (barrier, proj) = (&barrier, &proj);
                                sc.spawn(move || {
                                    // a thread owns its iterators (slot = thread number) and its string buffer
                                    let mut its: Vec<Option<(Box<dyn DynIt>, bool)>> = (0..SLOTS).map(|_| None).collect();
                                    let mut strbuf = String::with_capacity(1 << 12);
                                    let mut buf = String::new();
                                    barrier.wait();
                                    for l in prog {
                                        let t: Vec<&str> = l.split(' ').collect();
                                        let tt: Vec<&str> = std::iter::once("s").chain(t[2..].iter().copied()).collect();
                                        exec_step(&tt, tid, step, tt[1], tt[2], case, proj, &mut its, &mut strbuf, &mut buf);
                                    }
                                    buf
                                })
                            })
                            .collect();
                        handles.into_iter().map(|h| h.join().expect("rt: a thread of a parallel block panicked")).collect()
                    });
                    // the block returned: its result, then the events of every thread (per-thread order; the threads share
                    // nothing, so any serialisation of their events is a behaviour of the contract)
                    out.w("\"res\":{\"k\":\"ok\"}}\n");
                    for b in bufs {
                        out.w(&b);
                    }
                }
            }
            "" => {}
            _ => panic!("rt: unknown script line {line}"),
        }
    }
    out.w("");
    BEAT.store(0, std::sync::atomic::Ordering::Relaxed);
}
