#!/usr/bin/env python3
"""setup: run once after a fresh restore, offline.  Pre-builds what the checks share (TLC stimuli,
cargo dependencies of the corpus crates) and runs the self-tests of the trusted base:
 - projection round trip (tools/prim.py)
 - specification self-checks (MC_IterAbs theorems; Corpus.tla contract theorems)
 - demonstration of the binding: a recorded trace of the real derive output is accepted by the trace
   specification; the same trace with one corrupted field, one removed event, or a shifted
   discriminant in the decl event is rejected at the expected line."""
import os, sys, json, time, re, shutil
sys.path.insert(0, os.path.dirname(os.path.abspath(__file__)))
import prim, stimuli, corpus_rt, run_rt, judge
from common import log, WORK, ToolError


def binding_selftest():
    pl = corpus_rt.build_plan("mini", 0)
    crate = os.path.join(WORK, "rt", "mini")
    meta = corpus_rt.write_crate(pl, crate)
    cases = {c["id"]: c for g in pl.groups for c in g["cases"]}
    failed, shards, aborts = run_rt.build_and_run(crate, meta, cases, os.path.join(crate, "traces"), log=log)
    if failed:
        log(f"note: {len(failed)} mini-corpus cases do not compile on this tree (reported by the checks, not by setup)")
    v, st = judge.judge_shards(shards, log=log)
    good = shards[0]["trace"]
    lines = open(good).read().split("\n")
    lines = [l for l in lines if l]
    bad_lines = {x["line"] for x in v}
    report = {"events": len(lines), "violations_on_recorded_trace": len(v)}
    d = os.path.join(crate, "selftest")
    os.makedirs(d, exist_ok=True)

    def run_mut(name, mutate):
        ls = list(lines)
        at = mutate(ls)
        path = os.path.join(d, name + ".ndjson")
        open(path, "w").write("\n".join(ls) + "\n")
        try:
            vv, _ = judge.judge_shards([{"trace": path, "events": len(ls)}], log=lambda *_: None)
        except ToolError as e:
            # the specification refuses the trace outright (e.g. an argument that is not a declared variant)
            report[name] = {"mutated_line": at, "rejected": True, "how": "specification assertion: trace is not a possible recording"}
            return True
        new = [x for x in vv if x["line"] not in bad_lines or x["line"] >= at]
        hit = any(x["line"] >= at for x in vv) and len(vv) > len([x for x in v if x["line"] < at])
        report[name] = {"mutated_line": at, "rejected": bool(vv) and any(x["line"] >= at - 1 for x in vv),
                        "first_violation_line": min((x["line"] for x in vv if x["line"] >= at - 1), default=None)}
        return report[name]["rejected"]

    def corrupt_field(ls):
        for i, l in enumerate(ls):
            if '"fn":"as_str"' in l and (i + 1) not in bad_lines:
                ls[i] = re.sub(r'"res":\{"k":"str","s":\[[0-9,]*\]', '"res":{"k":"str","s":[63,63]', l)
                return i + 1
        raise ToolError("selftest: no as_str event")

    def drop_event(ls):
        for i, l in enumerate(ls):
            if '"ev":"it_op"' in l and '"op":"next"' in l and '"k":"val"' in l and '"ev":"it_op"' in ls[i + 1]:
                del ls[i]
                # refs after the removed line shift by one: drop them (0 = no metamorphic comparison)
                for j in range(len(ls)):
                    ls[j] = re.sub(r'^\{"ref":\d+,', '{"ref":0,', ls[j])
                return i + 1
        raise ToolError("selftest: no droppable event")

    def shift_disc(ls):
        for i, l in enumerate(ls):
            if '"ev":"decl"' in l:
                m = re.search(r'"discs":\[(-?\d+)', l)
                ls[i] = l.replace('"discs":[' + m.group(1), '"discs":[' + str(int(m.group(1)) - 1), 1).replace('"tmin":' + m.group(1) + ',', '"tmin":' + str(int(m.group(1)) - 1) + ',')
                return i + 1
        raise ToolError("selftest: no decl")

    def change_rename(ls):
        # the declaration is part of the binding: another rename string in the decl event changes every expected name
        for i, l in enumerate(ls):
            if '"ev":"decl"' in l and '{"k":"some","s":[' in l:
                ls[i] = l.replace('{"k":"some","s":[', '{"k":"some","s":[63,', 1)
                return i + 1
        raise ToolError("selftest: no decl with a rename")

    def wrong_slot(ls):
        # iterators are told apart by their slot: a constructor recorded for another slot leaves the operations that follow
        # without an iterator -- not a possible recording
        for i, l in enumerate(ls):
            if '"ev":"it_new"' in l and '"slot":1' in l:
                ls[i] = l.replace('"slot":1', '"slot":2', 1)
                return i + 1
        raise ToolError("selftest: no constructor on slot 1")

    ok = (run_mut("corrupt_field", corrupt_field) & run_mut("drop_event", drop_event) & run_mut("shift_disc", shift_disc)
          & run_mut("change_rename", change_rename) & run_mut("wrong_slot", wrong_slot))
    # the replay path: a recorded case (source + script) is rebuilt alone, re-recorded and judged again
    import check, replay
    b = next(b for b in meta["bins"] if any(c["id"] not in failed for c in b["cases"]))
    c = next(c for c in b["cases"] if c["id"] not in failed)
    res = {"cases": {str(c["id"]): {"src": [os.path.join(crate, b["src"] + ".orig"), c["start"], c["end"]],
                                    "script": os.path.join(crate, b["script"]), "label": c["label"]}}}
    rpath = os.path.join(d, "replay.json")
    json.dump({"property": "C06", "engine": "rt", "case": c["id"], "why": "abs", "rust": check.case_source(res, c["id"]), "rust_lib": None,
               "script": check.case_script(res, c["id"]), "edition": "2021"}, open(rpath, "w"))
    report["replay_of_a_clean_case"] = "not reproduced" if replay.run("C06", rpath) == 0 else "VIOLATION"
    # (the outcome is reported, not demanded: on a tree with a defect the case may really violate the contract; what is
    #  tested here is that the replay path runs)
    report["ok"] = bool(ok)
    json.dump(report, open(os.path.join(WORK, "selftest.json"), "w"), indent=1)
    log("binding self-test:", json.dumps(report))
    if not ok:
        raise ToolError("binding self-test failed: a corrupted trace was accepted")


def main():
    t0 = time.time()
    os.makedirs(WORK, exist_ok=True)
    prim.selftest()
    log("projection round trip ok")
    for n in range(1, 7):
        stimuli.iter_graph(n)
    for n in range(1, 5):
        stimuli.multi_graph(n, 2)
    stimuli.multi_graph(2, 3)
    stimuli.cfg_cover(2)
    stimuli.cfg_cover(3)
    rot = [r for r in prim.REPRS if r not in corpus_rt.QUICK_REPRS_FIXED]
    from concurrent.futures import ThreadPoolExecutor
    with ThreadPoolExecutor(6) as ex:
        list(ex.map(stimuli.corpus_sets, corpus_rt.QUICK_REPRS_FIXED + rot))
    log(f"TLC stimuli ready {time.time() - t0:.1f}s")
    import models
    for m in models.MODELS:
        r = models.run_model(m, "quick")
        log(f"design-level model {m}: {r['states']} states ok")
    for n in models.NEGATIVE:
        models.run_model(None, "quick", negative=n)
        log(f"named deviation {n}: found by TLC")
    for n in models.PROOFS:
        r = models.run_proof(n)
        log(f"TLAPS {n}: {r['obligations_proved']} obligations proved ({r['wall_s']}s)")
    binding_selftest()
    log(f"setup done in {time.time() - t0:.1f}s")


if __name__ == "__main__":
    try:
        main()
    except ToolError as e:
        print("TOOL-ERROR:", e, file=sys.stderr)
        sys.exit(2)
