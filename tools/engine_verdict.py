"""The accept/reject engine (C10..C14): TLC-generated cases -> batch library crates built from /repo
(real builds, not `cargo check`) + control builds without the derive -> verdict events -> TLC judge."""
import os, json, time, shutil, collections, re
import prim, verdict_gen, render_verdict, judge, run_rt
from common import cached, log, WORK, REPO
from tlc import ToolError

PROPS = ["C10", "C11", "C12", "C13", "C14"]
NCRATES = 16


def case_repr(c):
    r = render_verdict.base_repr(c["src"])
    if r:
        return r
    # no primitive repr in the item: recover the type the generator used from the limits
    lim = c["src"]["lim"]
    for r in prim.REPRS:
        p = prim.Proj(r)
        if p.model_tmin() == lim["tmin"] and p.model_tmax() == lim["tmax"]:
            return r
    return "u8"


def hook_available():
    """the guarded pipeline trace hook (cargo feature verif-trace) exists in the tree under test"""
    try:
        return "verif-trace" in open(os.path.join(REPO, "Cargo.toml")).read()
    except OSError:
        return False


def write_ws(root, name, chunks, derive, nonprimary=False):
    """a workspace of library crates; chunks: list of lists of (case_id, lines). returns {crate: [(id, a, b)]}"""
    ws = os.path.join(root, name)
    if os.path.exists(ws):
        shutil.rmtree(ws)
    os.makedirs(os.path.join(ws, ".cargo"))
    members, spans = [], {}
    for k, chunk in enumerate(chunks):
        if not chunk:
            continue
        cn = f"{name}{k:02d}"
        members.append(cn)
        os.makedirs(os.path.join(ws, cn, "src"))
        feat = ', features = ["verif-trace"]' if derive and hook_available() else ""
        dep = 'enum-tools = { path = "%s"%s }\n' % (REPO, feat) if derive else ""
        open(os.path.join(ws, cn, "Cargo.toml"), "w").write(
            f"[package]\nname = \"{cn}\"\nversion = \"0.0.0\"\nedition = \"2021\"\n[dependencies]\n{dep}")
        src = ["#![allow(warnings)]", "#![recursion_limit = \"1024\"]"]
        sp = []
        for cid, lines in chunk:
            a = len(src)
            src.append(f"pub mod c{cid} {{")
            if derive:
                src.append("use ::enum_tools::EnumTools;")
            src += lines
            src.append("}")
            sp.append((cid, a, len(src)))
        open(os.path.join(ws, cn, "src", "lib.rs"), "w").write("\n".join(src) + "\n")
        spans[cn] = sp
    if nonprimary:
        # the case crates are DEPENDENCIES of the only member (cargo builds them as non-primary packages: no
        # CARGO_PRIMARY_PACKAGE, lints capped) -- what the derive accepts must not depend on that
        os.makedirs(os.path.join(ws, "user", "src"))
        open(os.path.join(ws, "user", "Cargo.toml"), "w").write(
            "[package]\nname = \"user\"\nversion = \"0.0.0\"\nedition = \"2021\"\n[dependencies]\n"
            + "".join('%s = { path = "../%s" }\n' % (m, m) for m in members))
        open(os.path.join(ws, "user", "src", "lib.rs"), "w").write("\n")
    open(os.path.join(ws, "Cargo.toml"), "w").write(
        "[workspace]\nresolver = \"2\"\nmembers = [" + (", ".join(f'"{m}"' for m in members) if not nonprimary else '"user"') + "]\n"
        + ("exclude = [" + ", ".join(f'"{m}"' for m in members) + "]\n" if nonprimary else "") +
        "[profile.dev]\ndebug = false\nincremental = false\nopt-level = 0\n[profile.dev.build-override]\nopt-level = 1\ndebug = false\n"
        # the optimised pass: the DERIVE is what matters (a proc-macro built for a release build has no overflow checks)
        "[profile.release]\ndebug = false\nincremental = false\nopt-level = 0\n")
    shutil.copy(os.path.join(REPO, "Cargo.lock"), os.path.join(ws, "Cargo.lock"))
    open(os.path.join(ws, ".cargo", "config.toml"), "w").write(
        "[net]\noffline = true\n[build]\nrustflags = [\"--cfg\", \"enum_tools_verif\", \"--check-cfg\", \"cfg(enum_tools_verif)\"]\n")
    return ws, spans


def peel(ws, spans, what, trace_env=None, release=False, dep=False):
    """build; every case with an error is 'rejected' and removed; repeat until the rest builds.
    returns {case_id: first error message}"""
    rejected = {}
    for rnd in range(12):
        t0 = time.time()
        rc, msgs, err = run_rt.cargo_json(ws, (["--workspace", "--lib"] if not dep else ["-p", "user", "--lib"]) + (["--release"] if release else []),
                                          extra_env=trace_env if rnd == 0 else None)
        errs = run_rt.errors_of(msgs)
        log(f"{what} round {rnd}: rc={rc} errors={len(errs)} {time.time() - t0:.1f}s")
        if rc == 0:
            return rejected
        if not errs:
            raise ToolError(f"{what}: cargo failed without diagnostics:\n{err[-3000:]}")
        new = {}
        # messages carry file names relative to the workspace root or the package
        for f, line, msg, code in errs:
            if f is None:
                raise ToolError(f"{what}: error without a span: {msg}")
            m = re.search(r"([a-z]+\d\d)/src/lib\.rs$", f)
            if not m or m.group(1) not in spans:
                raise ToolError(f"{what}: error outside the case crates: {f}:{line}: {msg}")
            cn = m.group(1)
            hit = next((cid for cid, a, b in spans[cn] if a < line <= b), None)
            if hit is None:
                raise ToolError(f"{what}: error outside a case module: {f}:{line}: {msg}")
            new.setdefault(hit, (cn, msg))
        for cid, (cn, msg) in new.items():
            rejected[cid] = msg
        by_crate = collections.defaultdict(list)
        for cid, (cn, _) in new.items():
            by_crate[cn].append(cid)
        for cn, ids in by_crate.items():
            path = os.path.join(ws, cn, "src", "lib.rs")
            lines = open(path).read().split("\n")
            for cid, a, b in spans[cn]:
                if cid in ids:
                    for i in range(a, b):
                        lines[i] = "// removed"
            open(path, "w").write("\n".join(lines))
    raise ToolError(f"{what}: build did not converge")


def pipeline_drift(ptrace, max_records=30000):
    """validate the hook's records against spec/Resolve.tla (spec/TracePipeline.tla). Drift is a note, never a verdict."""
    if not os.path.exists(ptrace):
        return {"records": 0, "drift": 0, "hook": hook_available()}
    lines = [l for l in open(ptrace).read().split("\n") if l.startswith('{"ev":"resolve"')]
    # identical records (same pre-state and shape) need to be judged once
    uniq = list(dict.fromkeys(re.sub(r'"enum":"[^"]*",', "", l) for l in lines))[:max_records]
    shards, k = [], 0
    for i in range(0, len(uniq), 4000):
        path = f"{ptrace}.{k}"
        k += 1
        open(path, "w").write("\n".join(uniq[i:i + 4000]) + "\n")
        shards.append({"trace": path, "events": len(uniq[i:i + 4000])})
    drifts, st = judge.judge_shards(shards, module="TracePipeline", log=log, tag="DRIFT") if shards else ([], {"states": 0, "transitions": 0})
    for d in drifts[:5]:
        log("NOTE model-drift: Resolve.tla does not describe the resolution of " + json.dumps(d.get("rec", {}).get("pre"))[:300])
    return {"records": len(lines), "distinct": len(uniq), "drift": len(drifts), "hook": True, "tlc": st,
            "examples": [d.get("rec") for d in drifts[:3]]}


def compute(tier, seed):
    t0 = time.time()
    allcases, stim = [], {"states": 0, "transitions": 0}
    for prop in PROPS:
        r = verdict_gen.cases(prop, tier, seed, nrand=60 if tier == "quick" else 400)
        stim["states"] += r["stats"]["distinct"]
        stim["transitions"] += r["stats"]["states"]
        for c in r["cases"]:
            c["id"] = len(allcases) + 1
            c["_repr"] = case_repr(c)
            allcases.append(c)
    log(f"verdict[{tier}]: {len(allcases)} cases from TLC in {time.time() - t0:.1f}s")
    root = os.path.join(WORK, "verdict", tier)
    os.makedirs(root, exist_ok=True)
    # spread the cases over NCRATES crates; big (generated) enums first so they do not pile up in one crate
    order = sorted(allcases, key=lambda c: -c["src"]["count"])
    chunks_d = [[] for _ in range(NCRATES)]
    chunks_c = [[] for _ in range(NCRATES)]
    for i, c in enumerate(order):
        chunks_d[i % NCRATES].append((c["id"], render_verdict.render(c, c["_repr"], derive=True)))
        chunks_c[i % NCRATES].append((c["id"], render_verdict.render(c, c["_repr"], derive=False)))
    wsd, spd = write_ws(root, "vd", chunks_d, True)
    wsc, spc = write_ws(root, "vc", chunks_c, False)
    # the guarded hook in the derive records, per invocation, what the dependency resolution decided
    ptrace = os.path.join(root, "pipeline.ndjson")
    if os.path.exists(ptrace):
        os.remove(ptrace)
    rej = peel(wsd, spd, "derive build", trace_env={"ENUM_TOOLS_VERIF_TRACE": ptrace} if hook_available() else None)
    ctl = peel(wsc, spc, "control build")
    # the same verdicts from a derive built WITHOUT overflow checks (`cargo build --release` builds proc-macros that way):
    # declarations with values near the limits of i64 / the repr, where the derive's own arithmetic can wrap
    def wide(c):
        return any(abs(v.get("val", 0)) >= 100000 for v in c["src"]["variants"])
    sel = {p: [c for c in allcases if c["prop"] == p and wide(c)] for p in ("C11", "C12", "C14")}
    cap = {"C11": 1200, "C12": 10 ** 9, "C14": 800} if tier == "quick" else {"C11": 6000, "C12": 10 ** 9, "C14": 4000}
    relcases = []
    for p, cs in sel.items():
        k = max(1, -(-len(cs) // cap[p]))
        relcases += [dict(c, id=c["id"] + 1000000, profile="release", note=c["note"] + " [derive built without overflow checks]") for c in cs[::k]]
    chunks_r = [[] for _ in range(NCRATES)]
    for i, c in enumerate(relcases):
        chunks_r[i % NCRATES].append((c["id"], render_verdict.render(c, c["_repr"], derive=True)))
    wsr, spr = write_ws(root, "vr", chunks_r, True)
    rejr = peel(wsr, spr, "derive build (release)", release=True) if relcases else {}
    for c in relcases:
        if c["id"] in rejr:
            rej[c["id"]] = rejr[c["id"]]
        if c["id"] - 1000000 in ctl:
            ctl[c["id"]] = ctl[c["id"] - 1000000]
    log(f"verdict[{tier}]: {len(relcases)} of the cases repeated with an optimised derive")
    # ... and from crates that are dependencies of the crate being built (non-primary packages): a sample of every class
    depcases = []
    for p_ in PROPS:
        cs = [c for c in allcases if c["prop"] == p_ and c["src"]["count"] == 0]
        k = max(1, -(-len(cs) // (400 if tier == "quick" else 2000)))
        depcases += [dict(c, id=c["id"] + 2000000, profile="dependency", note=c["note"] + " [in a dependency of the crate being built]") for c in cs[::k]]
    chunks_p = [[] for _ in range(NCRATES)]
    for i, c in enumerate(depcases):
        chunks_p[i % NCRATES].append((c["id"], render_verdict.render(c, c["_repr"], derive=True)))
    wsp, spp = write_ws(root, "vp", chunks_p, True, nonprimary=True)
    rejp = peel(wsp, spp, "derive build (dependency)", dep=True) if depcases else {}
    for c in depcases:
        if c["id"] in rejp:
            rej[c["id"]] = rejp[c["id"]]
        if c["id"] - 2000000 in ctl:
            ctl[c["id"]] = ctl[c["id"] - 2000000]
    log(f"verdict[{tier}]: {len(depcases)} of the cases repeated in non-primary packages")
    # ... and, for the declarations whose values lie outside i64 (C12), with rustc's own `overflowing_literals` lint allowed on
    # the enum: for a repr of at most 64 bits rustc rejects such a literal only through that (deny-by-default) lint -- with
    # the lint allowed (bit-pattern code, `--cap-lints allow` for registry dependencies) the derive's own check is all there is
    lintcases = [dict(c, id=c["id"] + 3000000, profile="allowlint", ctl="any", note=c["note"] + " [overflowing_literals allowed]")
                 for c in allcases if c["prop"] == "C12" and "i64" in c["note"] and c["src"]["count"] == 0]
    # (the same items once more under reprs of at most 64 bits, which cannot hold the value at all: the literal keeps its
    #  spelling, only the repr attribute changes -- the item stays outside the domain, whatever rustc makes of the literal)
    narrow = []
    for c in lintcases:
        for j, nr in enumerate(("i32", "u16", "i64")):
            narrow.append(dict(c, id=c["id"] + 100000 * (j + 1), narrow=nr, note=c["note"] + f" [repr({nr})]"))
    lintcases += narrow

    def lint_lines(c):
        lines = render_verdict.render(c, c["_repr"], derive=True)
        if c.get("narrow"):
            lines = [ln.replace(f"#[repr({c['_repr']})]", f"#[repr({c['narrow']})]") for ln in lines]
        k = next((j for j, ln in enumerate(lines) if ln.startswith("#[derive(")), 0)
        return lines[:k] + ["#[allow(overflowing_literals)]"] + lines[k:]
    chunks_l = [[] for _ in range(NCRATES)]
    for i, c in enumerate(lintcases):
        chunks_l[i % NCRATES].append((c["id"], lint_lines(c)))
    wsl, spl = write_ws(root, "vl", chunks_l, True)
    rejl = peel(wsl, spl, "derive build (lint allowed)") if lintcases else {}
    for c in lintcases:
        if c["id"] in rejl:
            rej[c["id"]] = rejl[c["id"]]
    log(f"verdict[{tier}]: {len(lintcases)} of the C12 cases repeated with overflowing_literals allowed")
    allcases = allcases + relcases + depcases + lintcases
    drift = pipeline_drift(ptrace)
    trace = os.path.join(root, "verdict.ndjson")
    shards, n, k = [], 0, 0
    f = None
    for c in allcases:
        if f is None or n >= 4000:
            if f:
                f.close()
                shards[-1]["events"] = n
            path = os.path.join(root, f"verdict{k:03d}.ndjson")
            k += 1
            f, n = open(path, "w"), 0
            shards.append({"trace": path, "events": 0})
        ev = {"ev": "verdict", "case": c["id"], "prop": c["prop"], "src": c["src"], "cfg": c["cfg"],
              "accepted": c["id"] not in rej, "ctl": c["id"] not in ctl,
              "ctlexp": c.get("ctl", "rust"), "msg": rej.get(c["id"], "")[:160], "profile": c.get("profile", "dev")}
        f.write(json.dumps(ev) + "\n")
        n += 1
    f.close()
    shards[-1]["events"] = n
    viols, jst = judge.judge_shards(shards, module="TraceVerdict", log=log)
    byid = {c["id"]: c for c in allcases}
    out = []
    for v in viols:
        c = byid[v["case"]]
        out.append({"props": v["props"], "why": v["why"], "case": v["case"], "msg": v["msg"], "note": c["note"], "profile": c.get("profile", "dev"),
                    "attrs": " ".join(render_verdict.cfg_attr_lines(c["cfg"])), "repr": c["_repr"],
                    "rust": "\n".join((lint_lines(c) if c.get("profile") == "allowlint" else render_verdict.render(c, c["_repr"], True))[:40])})
    cov = collections.Counter(c["prop"] for c in allcases)
    notes = {p: dict(collections.Counter(c["note"] for c in allcases if c["prop"] == p).most_common(40)) for p in PROPS}
    samples = {}
    for p in PROPS:
        cs = [c for c in allcases if c["prop"] == p]
        samples[p] = [{"case": c["id"], "note": c["note"], "rust": render_verdict.render(c, c["_repr"], True)[:12],
                       "accepted": c["id"] not in rej} for c in (cs[:1] + cs[len(cs) // 2:len(cs) // 2 + 1] + cs[-1:])]
    return {"tier": tier, "seed": seed, "violations": out, "coverage": dict(cov), "notes": notes, "samples": samples,
            "rejected": len(rej), "control_failed": len(ctl), "n_cases": len(allcases), "pipeline_trace": drift,
            "tlc": {"stimuli": stim, "judge": jst}}


def results(tier, seed):
    return cached("verdict", tier, seed, lambda: compute(tier, seed))


if __name__ == "__main__":
    import sys
    r = compute(sys.argv[1] if len(sys.argv) > 1 else "quick", 0)
    print({k: v for k, v in r.items() if k not in ("violations", "samples", "notes")})
    c = collections.Counter((tuple(v["props"]), v["why"], v["note"], v["msg"][:60]) for v in r["violations"])
    for k, n in c.most_common(40):
        print(n, k)
