"""Trace validation: run TLC on spec/TraceRt.tla (and the other trace specifications) for each shard."""
import os, json, re, time
from concurrent.futures import ThreadPoolExecutor
from tlc import run_tlc, printed, ToolError, WORK, spec_digest


def judge_shards(shards, module="TraceRt", jobs=12, log=print, tag="VIOL"):
    """shards: [{"trace": path, "events": n}] -> (violations [{line, case, why, props, ev, shard}], stats)"""
    rundir = os.path.join(WORK, "judge", spec_digest())
    os.makedirs(rundir, exist_ok=True)
    t0 = time.time()

    def one(sh):
        if sh["events"] == 0:
            return [], {"states": 0, "distinct": 0, "wall_s": 0}
        out, st = run_tlc(rundir, module + ".tla", module + ".cfg", workers=1, xmx="3g", deque=True,
                          env_extra={"TRACE": sh["trace"]}, timeout=3000)
        cons = re.search(r'<<"CONSUMED", (\d+)>>', out)
        if not cons or int(cons.group(1)) != sh["events"] or "Model checking completed. No error has been found." not in out:
            raise ToolError(f"trace validation of {sh['trace']} did not complete:\n{out[-4000:]}")
        v = printed(out, tag)
        for x in v:
            x["shard"] = sh["trace"]
        return v, st
    viols, states, trans = [], 0, 0
    with ThreadPoolExecutor(jobs) as ex:
        for v, st in ex.map(one, shards):
            viols += v
            states += st["distinct"]
            trans += st["states"]
    log(f"validated {sum(s['events'] for s in shards)} events in {len(shards)} shards: {len(viols)} violation records, {time.time() - t0:.1f}s")
    return viols, {"states": states, "transitions": trans, "wall_s": round(time.time() - t0, 1)}
