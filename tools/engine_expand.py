"""The expansion engine (C17): the derive is expanded by K fresh rustc processes (-Zunpretty=expanded);
the digests of the expanded code of each case must agree (spec/TraceExpand.tla)."""
import os, re, json, time, shutil, hashlib, subprocess, random
from concurrent.futures import ThreadPoolExecutor
import prim, render, corpus_rt, judge, run_rt
from common import cached, log, WORK, REPO
from tlc import ToolError


def plan_cases(tier, seed):
    rng = random.Random(f"exp-{tier}-{seed}")
    cases = []
    n = 160 if tier == "quick" else 1500
    for i in range(n):
        r = rng.choice(prim.REPRS)
        lo, hi = prim.dmin(r), prim.dmax(r)
        k = rng.choice([3, 4, 6, 8, 12, 20, 40])
        base = rng.choice([lo, 0 if lo <= 0 else lo, hi - 3 * k, -k if lo < 0 else 0])
        base = max(lo, min(base, hi - 3 * k))
        reals = sorted(rng.sample(range(base, base + 2 * k + 1), min(k, 2 * k + 1)))
        if rng.random() < 0.3:
            reals = list(range(base, base + k))
        gapless = corpus_rt.runs_of(reals) == 1
        order = rng.choice(["asc", "shuffle", "desc"])
        vs = corpus_rt.decorate(reals, r, rng, rng.choice(["ident", "renames", "dups"]), order, rng.choice(["dec", "mixed", "implicit"]))
        kind = i % 4
        if kind == 0:
            cfg = corpus_rt.kappa_list(gapless)[i // 4 % 3][1]
        elif kind == 1:
            cfg = corpus_rt.sparse_cfg(rng, gapless)
        elif kind == 2:
            # every feature, every parameter
            cfg = corpus_rt.cfg_full(rng.choice(["match", "table"]), rng.choice(["match", "table"]), rng.choice(["match", "table"]),
                                     rng.choice(["next_and_back", "table"]),
                                     extra={f: {"name": f"n_{f.lower()}", "vis": rng.choice(["", "pub", "pub(crate)"])} for f in render.DEFAULT_NAME})
            cfg["split"] = "each"
            if i % 8 == 6:
                # every feature decides on its own: default name, lower case, upper case, mixed; with / without visibility
                # (anything the derive collects per feature in a hashed container then has several distinct elements)
                def own(f):
                    d = {}
                    style = rng.choice(["default", "lower", "UPPER", "miXed"])
                    if style != "default":
                        d["name"] = {"lower": f"n_{f.lower()}", "UPPER": f"N_{f.upper()}", "miXed": f"n{f.capitalize()}_x"}[style]
                    if rng.random() < 0.5:
                        d["vis"] = rng.choice(["", "pub", "pub(crate)"])
                    return d
                cfg = corpus_rt.cfg_full(rng.choice(["match", "table", None]), rng.choice(["match", "table", None]), rng.choice(["match", "table", None]),
                                         rng.choice(["next_and_back", "table", None]), extra={f: own(f) for f in render.DEFAULT_NAME})
                cfg["split"] = rng.choice(["one", "each"])
        else:
            # sorted(..) needs a declaration that is sorted accordingly
            vs = corpus_rt.decorate(reals, r, rng, "ident", "asc", "dec")
            for j, v in enumerate(vs):
                v["ident"] = f"V{j:03d}"
            cfg = dict(corpus_rt.kappa_list(gapless)[i // 4 % 3][1])
            cfg["sorted"] = rng.choice([["value"], ["name"], ["name", "value"], []])
        if i % 3 == 1:
            # attributes of other tools on the enum and on its variants (several lint levels, docs, deprecation): whatever the
            # derive reads or forwards from them must not pass through a hashed container on its way into the output
            cfg = dict(cfg)
            cfg["extra_attrs"] = ["/// An enum.", "#[allow(dead_code)]", "#[deny(unused_must_use)]", "#[warn(unused_mut)]", "#[allow(non_camel_case_types, unused)]",
                                  "#[doc(alias = \"a\", alias = \"b\")]"][: 2 + i % 5]
            for v in vs:
                picked = []
                for a in rng.sample(corpus_rt.VARIANT_FOREIGN_ATTRS, rng.choice([1, 2, 3])):
                    # (rustc refuses a second `deprecated` / `non_exhaustive` on the same item)
                    if not any(k in a and any(k in b for b in picked) for k in ("deprecated", "non_exhaustive")):
                        picked.append(a)
                v["attrs"] = picked
        cases.append({"id": i + 1, "repr": r, "variants": vs, "cfg": cfg})
    # threshold configurations: `iter` alone / with names on enums with holes of 1..9 variants of every repr
    # (auto picks table_inline below and next_and_back above num_values * size_guess = 8)
    for r in prim.REPRS:
        for n in (2, 3, 4, 8, 9):
            base = 0 if not prim.signed(r) else -3
            reals = [base + 2 * j for j in range(n)]
            vs = corpus_rt.decorate(reals, r, rng, "ident", "shuffle", "dec")
            for feats in (["iter"], ["iter", "names"]):
                cases.append({"id": len(cases) + 1, "repr": r, "variants": vs, "cfg": {"feats": [(f, {}) for f in feats], "split": "one"}})
    # twins: the same declaration (same enum-level attributes, identifiers, discriminants) with other renames /
    # another visibility: a per-process cache keyed by an incomplete description of the input would confuse them
    twins = []
    for c in cases[:60:2]:
        t = {"id": 0, "repr": c["repr"], "cfg": c["cfg"], "variants": [dict(v) for v in c["variants"]], "twin_of": c["id"]}
        for j, v in enumerate(t["variants"]):
            v["rename"] = None if v.get("rename") else f"tw{j}"
        t["enum_vis"] = "pub(crate)"
        twins.append(t)
    for t in twins:
        t["id"] = len(cases) + 1
        cases.append(t)
    # large enums
    for n_big in ([300, 1500] if tier == "quick" else [300, 1500, 5000, 20000]):
        reals = sorted(random.Random(n_big).sample(range(-3 * n_big, 3 * n_big), n_big))
        vs = corpus_rt.decorate(reals, "i32", rng, "ident", "shuffle", "dec")
        cases.append({"id": len(cases) + 1, "repr": "i32", "variants": vs, "cfg": corpus_rt.kappa_list(False)[2][1]})
    return cases


def compute(tier, seed):
    t0 = time.time()
    K = 8 if tier == "quick" else 32
    cases = plan_cases(tier, seed)
    root = os.path.join(WORK, "expand", tier)
    if os.path.exists(root):
        shutil.rmtree(root)
    os.makedirs(os.path.join(root, "src"))
    os.makedirs(os.path.join(root, ".cargo"))
    src = ["#![allow(warnings)]"]
    for c in cases:
        src.append(f"pub mod c{c['id']} {{")
        src += render.decl_lines(c)
        src.append("}")
    open(os.path.join(root, "src", "lib.rs"), "w").write("\n".join(src) + "\n")
    open(os.path.join(root, "Cargo.toml"), "w").write(
        "[package]\nname = \"expcorpus\"\nversion = \"0.0.0\"\nedition = \"2021\"\n[dependencies]\nenum-tools = { path = \"%s\" }\n[workspace]\n"
        "[profile.dev]\ndebug = false\nincremental = false\n[profile.dev.build-override]\nopt-level = 1\ndebug = false\n" % REPO)
    shutil.copy(os.path.join(REPO, "Cargo.lock"), os.path.join(root, "Cargo.lock"))
    open(os.path.join(root, ".cargo", "config.toml"), "w").write(
        "[net]\noffline = true\n[build]\nrustflags = [\"--cfg\", \"enum_tools_verif\", \"--check-cfg\", \"cfg(enum_tools_verif)\", \"--cap-lints\", \"allow\"]\n")
    # declarations of this corpus that do not compile are C10/C11's business: they are dropped here
    dropped = set()
    for rnd in range(6):
        lines = ["#![allow(warnings)]"]
        spans = []
        for c in cases:
            if c["id"] in dropped:
                continue
            a = len(lines)
            lines.append(f"pub mod c{c['id']} {{")
            lines += render.decl_lines(c)
            lines.append("}")
            spans.append((c["id"], a, len(lines)))
        open(os.path.join(root, "src", "lib.rs"), "w").write("\n".join(lines) + "\n")
        rc, msgs, err = run_rt.cargo_json(root, ["--lib"])
        errs = run_rt.errors_of(msgs)
        if rc == 0:
            break
        bad = set()
        for f, line, msg, code in errs:
            hit = next((cid for cid, a, b in spans if a < line <= b), None)
            if hit is None:
                raise ToolError(f"expansion corpus: unattributed error {f}:{line}: {msg}")
            bad.add(hit)
        if not bad:
            raise ToolError("expansion corpus does not build: " + err[-1500:])
        dropped |= bad
    else:
        raise ToolError("expansion corpus build did not converge")
    if dropped:
        log(f"expand: {len(dropped)} declarations do not compile on this tree and are left to C10/C11")
    cases = [c for c in cases if c["id"] not in dropped]
    if len(cases) < 20:
        raise ToolError("expansion corpus: too few declarations compile")
    so = None
    for m in msgs:
        if m.get("reason") == "compiler-artifact" and m.get("target", {}).get("name") in ("enum_tools", "enum-tools"):
            so = next((f for f in m["filenames"] if f.endswith(".so")), so)
    if not so:
        raise ToolError("cannot find the proc-macro artifact of enum-tools")
    env = dict(os.environ, RUSTC_BOOTSTRAP="1")
    # per-process state other than the hash seeds: the order in which the declarations are expanded (each run gets its own
    # permutation of the case modules) and the environment (odd runs see the variables cargo sets for crates and build scripts -- in two variants --, another
    # working directory name, TMPDIR, ...)
    scrambled = {"CARGO_CFG_TARGET_POINTER_WIDTH": "64", "CARGO_CFG_TARGET_ARCH": "x86_64", "CARGO_CFG_TARGET_OS": "linux",
                 "CARGO_CFG_TARGET_ENDIAN": "little", "CARGO_CFG_UNIX": "", "PROFILE": "release", "OPT_LEVEL": "3", "DEBUG": "false",
                 "HOST": "x86_64-unknown-linux-gnu", "TARGET": "x86_64-unknown-linux-gnu", "NUM_JOBS": "7", "OUT_DIR": "/nonexistent/out",
                 "CARGO_PKG_NAME": "other", "CARGO_PKG_VERSION": "9.9.9", "CARGO_CRATE_NAME": "other", "CARGO_MANIFEST_DIR": "/nonexistent",
                 "RUSTFLAGS": "-Copt-level=3", "CARGO_ENCODED_RUSTFLAGS": "-Copt-level=3", "TMPDIR": "/tmp", "LANG": "tr_TR.UTF-8",
                 "LC_ALL": "C", "TZ": "Pacific/Kiritimati", "SOURCE_DATE_EPOCH": "1", "RUST_LOG": "trace", "CARGO_FEATURE_STD": "1"}
    # every variable cargo documents for crates / build scripts, in two variants (an old and a new declared rust-version, ...)
    for k, v in {"CARGO_PKG_RUST_VERSION": "1.56", "CARGO_PKG_AUTHORS": "a:b", "CARGO_PKG_DESCRIPTION": "d", "CARGO_PKG_HOMEPAGE": "h",
                 "CARGO_PKG_REPOSITORY": "r", "CARGO_PKG_LICENSE": "MIT", "CARGO_PKG_LICENSE_FILE": "", "CARGO_PKG_README": "README.md",
                 "CARGO_PKG_VERSION_MAJOR": "9", "CARGO_PKG_VERSION_MINOR": "9", "CARGO_PKG_VERSION_PATCH": "9", "CARGO_PKG_VERSION_PRE": "rc.1",
                 "CARGO": "/nonexistent/cargo", "CARGO_BIN_NAME": "b", "CARGO_PRIMARY_PACKAGE": "1", "CARGO_TARGET_TMPDIR": "/tmp",
                 "RUSTC": "rustc", "RUSTDOC": "rustdoc", "RUSTC_WRAPPER": "", "RUSTC_LINKER": "cc",
                 "CARGO_MAKEFLAGS": "-j3", "CARGO_INCREMENTAL": "1", "CI": "true", "TERM": "dumb", "USER": "nobody",
                 "RUST_BACKTRACE": "full", "RUST_MIN_STACK": "16777216", "CARGO_CFG_DEBUG_ASSERTIONS": "", "CARGO_CFG_PANIC": "unwind",
                 "CARGO_CFG_TARGET_FEATURE": "sse2", "CARGO_CFG_TARGET_HAS_ATOMIC": "8,16,32,64,ptr", "CARGO_CFG_TARGET_FAMILY": "unix"}.items():
        scrambled.setdefault(k, v)
    scrambled2 = dict(scrambled, CARGO_PKG_RUST_VERSION="1.99.0", PROFILE="debug", OPT_LEVEL="0", DEBUG="true", CARGO_PKG_VERSION="0.0.1-alpha",
                      CARGO_PKG_VERSION_PRE="alpha", CARGO_CFG_TARGET_POINTER_WIDTH="32", CARGO_CFG_TARGET_ARCH="wasm32", CARGO_CFG_TARGET_OS="unknown",
                      TARGET="wasm32-unknown-unknown", CARGO_CFG_TARGET_ENDIAN="big", LANG="ja_JP.UTF-8", TZ="UTC", SOURCE_DATE_EPOCH="4000000000",
                      CARGO_INCREMENTAL="0", CI="", NUM_JOBS="1")
    blocks = {}
    for cid, a, b in spans:
        blocks[cid] = lines[a:b]

    def expand(k):
        order = [c["id"] for c in cases]
        random.Random(f"order-{seed}-{k}").shuffle(order)
        if k == 0:
            order = [c["id"] for c in cases]
        elif k == 1:
            order = order[::-1]
        src_k = os.path.join("src", f"lib_{k}.rs")
        text = ["#![allow(warnings)]"]
        for cid in order:
            text += blocks[cid]
        open(os.path.join(root, src_k), "w").write("\n".join(text) + "\n")
        e = dict(env)
        if k % 4 == 1:
            e.update(scrambled)
        elif k % 4 == 3:
            e.update(scrambled2)
        p = subprocess.run(["rustc", "--edition=2021", "--crate-type=lib", "--crate-name", "expcorpus", "-Zunpretty=expanded",
                            "--extern", f"enum_tools={so}", "--cap-lints", "allow", src_k],
                           cwd=root, env=e, stdout=subprocess.PIPE, stderr=subprocess.PIPE, text=True)
        if p.returncode != 0:
            raise ToolError("rustc -Zunpretty=expanded failed: " + p.stderr[-2000:])
        parts, cur, buf = {}, None, []

        def digest(b):
            while b and not b[-1].strip():      # the module that happens to be last carries the file's trailing newline
                b = b[:-1]
            return hashlib.sha256("\n".join(b).encode()).hexdigest()[:20]
        for line in p.stdout.split("\n"):
            m = re.match(r"pub mod c(\d+) \{", line)
            if m:
                if cur is not None:
                    parts[cur] = digest(buf)
                cur, buf = int(m.group(1)), []
            buf.append(line)
        if cur is not None:
            parts[cur] = digest(buf)
        if k == 0:
            open(os.path.join(root, "expanded0.rs"), "w").write(p.stdout)
        return parts
    with ThreadPoolExecutor(8) as ex:
        runs = list(ex.map(expand, range(K)))
    for r_ in runs:
        if set(r_) != {c["id"] for c in cases}:
            raise ToolError("expanded output does not contain every case module")
    trace = os.path.join(root, "expand.ndjson")
    with open(trace, "w") as f:
        for c in cases:
            for k, r_ in enumerate(runs):
                f.write(json.dumps({"ev": "expansion", "case": c["id"], "run": k, "sha": r_[c["id"]]}) + "\n")
    viols, jst = judge.judge_shards([{"trace": trace, "events": len(cases) * K}], module="TraceExpand", log=log)
    byid = {c["id"]: c for c in cases}
    out = []
    for v in viols:
        c = byid[v["case"]]
        out.append({"props": v["props"], "why": v["why"], "case": v["case"], "attrs": " ".join(render.attr_lines(c["cfg"])),
                    "n": len(c["variants"]), "repr": c["repr"], "rust": "\n".join(render.decl_lines(c)[:30]),
                    "digests": sorted({r_[c["id"]] for r_ in runs})})
    distinct = len({(c["repr"], len(c["variants"]), " ".join(render.attr_lines(c["cfg"]))) for c in cases})
    samples = [{"case": c["id"], "declaration": render.decl_lines(c)[:8], "digest": runs[0][c["id"]], "processes": K} for c in cases[:2]]
    log(f"expand: {len(cases)} cases x {K} processes, {len(out)} differ, {time.time() - t0:.1f}s")
    return {"violations": out, "n_cases": len(cases), "processes": K, "distinct": distinct, "samples": samples,
            "tlc": {"judge": jst}}


def results(tier, seed):
    return cached("expand", tier, seed, lambda: compute(tier, seed))


if __name__ == "__main__":
    r = compute("quick", 0)
    print({k: v for k, v in r.items() if k not in ("samples",)})
