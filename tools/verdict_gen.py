"""TLC-generated cases for the accept/reject properties (spec/Verdict.tla)."""
import os, json
import prim
from tlc import atomic_dump, run_tlc, tlc_ok, printed, spec_digest, WORK, ToolError
import stimuli


def lims_tla():
    parts = []
    for r in prim.REPRS:
        p = prim.Proj(r)
        narrow = prim.bits_of(r) < 64
        tmin, tmax = p.model_tmin(), p.model_tmax()
        i64min = tmin - 10 if prim.tmin(r) > prim.I64MIN else p.to_model(prim.I64MIN)
        i64max = tmax + 10 if prim.tmax(r) < prim.I64MAX else p.to_model(prim.I64MAX)
        if prim.tmin(r) == prim.I64MIN:
            i64min = tmin
        if prim.tmax(r) == prim.I64MAX:
            i64max = tmax
        lo, hi = p.to_model(prim.dmin(r)), p.to_model(prim.dmax(r))
        parts.append(f'{r} |-> [tmin |-> {tmin}, tmax |-> {tmax}, i64min |-> {i64min}, i64max |-> {i64max}, lo |-> {lo}, hi |-> {hi}]')
    return "[" + ",\n  ".join(parts) + "]"


def cases(prop, tier, seed, nrand=None):
    d = stimuli.stim_dir()
    nrand = nrand if nrand is not None else (150 if tier == "quick" else 2000)
    cache = os.path.join(d, f"verdict_{prop}_{tier}_{seed}_{nrand}.json")
    if os.path.exists(cache):
        return json.load(open(cache))
    rundir = os.path.join(d, f"run_verdict_{prop}_{tier}")
    os.makedirs(rundir, exist_ok=True)
    mod = f"MC_Verdict_{prop}"
    open(os.path.join(rundir, mod + ".tla"), "w").write(
        f"---- MODULE {mod} ----\nEXTENDS Verdict\nmcLims == {lims_tla()}\n====\n")
    open(os.path.join(rundir, mod + ".cfg"), "w").write(
        f"SPECIFICATION Spec\nCONSTANTS\n Lims <- mcLims\n Tier = \"{tier}\"\n NRand = {nrand}\n Prop = \"{prop}\"\n"
        "INVARIANTS Consistent Emit\nCHECK_DEADLOCK FALSE\n")
    out, st = run_tlc(rundir, mod + ".tla", mod + ".cfg", workers=1, extra=["-seed", str(seed + 1)], xmx="6g")
    if not tlc_ok(out):
        raise ToolError(f"TLC failed on {mod}:\n{out[-4000:]}")
    cs = printed(out, "CASE")
    if len(cs) != st["distinct"]:
        raise ToolError(f"{mod}: {len(cs)} CASE lines for {st['distinct']} states")
    res = {"prop": prop, "cases": cs, "stats": st}
    atomic_dump(res, cache)
    return res


if __name__ == "__main__":
    import sys, collections
    for prop in sys.argv[1:] or ["C13"]:
        r = cases(prop, "quick", 0)
        print(prop, len(r["cases"]), r["stats"])
        print(collections.Counter(c["note"] for c in r["cases"]).most_common(8))
        print(json.dumps(r["cases"][0])[:600])
