"""Design-level model checks of the implementation-shaped specifications against the contract.
They depend on the specification only (never on /repo), are cached by spec digest and can never
produce a VIOLATION: a failing model is a tool error (the models describe the repaired tree)."""
import os, json
from tlc import atomic_dump, run_tlc, tlc_ok, spec_digest, WORK, ToolError
import stimuli

MODELS = {
    # name: (module text, cfg text, workers) -- {q}: bound that differs between quick and thorough
    "gencode_i4": ("---- MODULE MC_gc_i4 ----\nEXTENDS MC_GenCode\nmcTMin == -8\nmcU == -8..7\n====\n",
                   "SPECIFICATION Spec\nCONSTANTS TMin <- mcTMin\n TMax = 7\n U <- mcU\n MaxCard = {q}\n UsePinnedOffset = FALSE\n"
                   "INVARIANTS Inv_Compiles Inv_C01 Inv_C05 Inv_Chain Inv_C03 Inv_C04 Inv_C07idx\nCHECK_DEADLOCK FALSE\n", {"quick": 4, "thorough": 16}),
    "gencode_u4": ("---- MODULE MC_gc_u4 ----\nEXTENDS MC_GenCode\nmcU == 0..15\n====\n",
                   "SPECIFICATION Spec\nCONSTANTS TMin = 0\n TMax = 15\n U <- mcU\n MaxCard = {q}\n UsePinnedOffset = FALSE\n"
                   "INVARIANTS Inv_Compiles Inv_C01 Inv_C05 Inv_Chain Inv_C03 Inv_C04 Inv_C07idx\nCHECK_DEADLOCK FALSE\n", {"quick": 4, "thorough": 16}),
    "gencode_i8": ("---- MODULE MC_gc_i8 ----\nEXTENDS MC_GenCode\nmcTMin == -128\nmcU == {-128, -127, -126, -3, -1, 0, 1, 5, 125, 126, 127}\n====\n",
                   "SPECIFICATION Spec\nCONSTANTS TMin <- mcTMin\n TMax = 127\n U <- mcU\n MaxCard = {q}\n UsePinnedOffset = FALSE\n"
                   "INVARIANTS Inv_Compiles Inv_C01 Inv_C05 Inv_Chain Inv_C03 Inv_C04 Inv_C07idx\nCHECK_DEADLOCK FALSE\n", {"quick": 3, "thorough": 11}),
    "iterimpl_i3": ("---- MODULE MC_it_i3 ----\nEXTENDS MC_IterImpl\nmcTMin == -4\nmcU == -4..3\n====\n",
                    "SPECIFICATION Spec\nCONSTANTS TMin <- mcTMin\n TMax = 3\n U <- mcU\n MaxCard = {q}\n Ks = {{0, 1, 2, 9}}\n UsePinnedOffset = FALSE\n PinnedTable = FALSE\n"
                    "INVARIANTS ConstructorOK ResultsAgree Refines\nCHECK_DEADLOCK FALSE\n", {"quick": 8, "thorough": 8}),
    "iterimpl_u3": ("---- MODULE MC_it_u3 ----\nEXTENDS MC_IterImpl\nmcU == 0..7\n====\n",
                    "SPECIFICATION Spec\nCONSTANTS TMin = 0\n TMax = 7\n U <- mcU\n MaxCard = {q}\n Ks = {{0, 1, 2, 9}}\n UsePinnedOffset = FALSE\n PinnedTable = FALSE\n"
                    "INVARIANTS ConstructorOK ResultsAgree Refines\nCHECK_DEADLOCK FALSE\n", {"quick": 8, "thorough": 8}),
    "parsevalues": ("---- MODULE MC_pv ----\nEXTENDS MC_ParseValues\n====\n",
                    "SPECIFICATION Spec\nCONSTANTS N = {q}\n UsePinnedNeg = FALSE\nINVARIANTS Inv_Verdict Inv_Values Inv_Reject\nCHECK_DEADLOCK FALSE\n",
                    {"quick": 2, "thorough": 3}),
    "hash": ("---- MODULE MC_hash ----\nEXTENDS Hash\n====\n",
             "SPECIFICATION Spec\nCONSTANTS Keys = {{1, 2, 3, 5, 8{q}}}\n Leftovers = {{\"bogus\", \"mode2\", \"x\"}}\n SkipSort = FALSE\nINVARIANT Deterministic\nCHECK_DEADLOCK FALSE\n",
             {"quick": "", "thorough": ", 13, 21"}),
    "runner": ("---- MODULE MC_runner ----\nEXTENDS Runner\n====\n",
               "SPECIFICATION Spec\nCONSTANTS N = 5\n NS = {q}\nINVARIANTS InOrderOnce NoDanglingAtEnd FatalIsAbort Complete\nPROPERTY Terminates\nCHECK_DEADLOCK FALSE\n",
               {"quick": 2, "thorough": 3}),
    # several iterators alive at once: operations on different slots commute (the product graph is also the source of the
    # interleavings replayed on the real iterators, stimuli.multi_paths)
    "itermulti": ("---- MODULE MC_im ----\nEXTENDS MC_IterMulti\n====\n",
                  "SPECIFICATION Spec\nCONSTANTS N = {q}\n Ks = {{0, 1, 2, 1000000000}}\n NSlots = 3\nINVARIANTS Commute\nPROPERTY Independent\nCHECK_DEADLOCK FALSE\n",
                  {"quick": 3, "thorough": 5}),
    "resolve": (None, "SPECIFICATION Spec\nCONSTANTS ModeSlice = \"{q}\"\nINVARIANTS Inv_C10 Inv_C13\nCHECK_DEADLOCK FALSE\n",
                {"quick": "default", "thorough": "all"}),
}
def _pa(prop):
    import verdict_gen
    return (f"---- MODULE MC_pa_{prop} ----\nEXTENDS MC_ParseAttr\nmcLims == {verdict_gen.lims_tla()}\n====\n",
            "SPECIFICATION Spec\nCONSTANTS\n Lims <- mcLims\n Tier = \"quick\"\n NRand = {q}\n Prop = \"" + prop + "\"\n IterMatchImplemented = TRUE\n"
            "INVARIANTS Consistent Inv_ParserIsCatalogue\nCHECK_DEADLOCK FALSE\n", {"quick": 20, "thorough": 100})


def _et(prop):
    import verdict_gen
    return (f"---- MODULE MC_et_{prop} ----\nEXTENDS MC_EnumTools\nmcLims == {verdict_gen.lims_tla()}\nmcTMin == -128\n====\n",
            "SPECIFICATION Spec\nCONSTANTS\n Lims <- mcLims\n Tier = \"quick\"\n NRand = {q}\n Prop = \"" + prop + "\"\n IterMatchImplemented = TRUE\n"
            " UsePinnedNeg = FALSE\n UsePinnedOffset = FALSE\n TMin <- mcTMin\n TMax = 127\n"
            "INVARIANTS Consistent Inv_Verdict Inv_Items\nCHECK_DEADLOCK FALSE\n", {"quick": 10, "thorough": 60})


for _p in ("C10", "C11", "C12", "C13", "C14"):
    MODELS["enumtools_" + _p.lower()] = _et(_p)
MODELS["parseattr_c13"] = _pa("C13")
MODELS["parseattr_c10"] = _pa("C10")

# the named deviations of the pinned tree must be FOUND by the model checker (discriminating power of the models)
NEGATIVE = {
    "gencode_i4_pinned_offset": ("gencode_i4", lambda cfg: cfg.replace("UsePinnedOffset = FALSE", "UsePinnedOffset = TRUE").replace("MaxCard = 16", "MaxCard = 3"), "Inv_"),
    "parsevalues_pinned_neg": ("parsevalues", lambda cfg: cfg.replace("UsePinnedNeg = FALSE", "UsePinnedNeg = TRUE").replace("N = 3", "N = 2"), "Inv_Verdict"),
    "parseattr_iter_match": ("parseattr_c10", lambda cfg: cfg.replace("IterMatchImplemented = TRUE", "IterMatchImplemented = FALSE"), "Inv_ParserIsCatalogue"),
    "enumtools_iter_match": ("enumtools_c10", lambda cfg: cfg.replace("IterMatchImplemented = TRUE", "IterMatchImplemented = FALSE"), "Inv_Verdict"),
    # (F5 cannot be exhibited on the Verdict cases: landmark coordinates are symmetric around 0, the asymmetry of
    #  two's complement that F5 needs is modelled by MC_ParseValues' tiny type -> parsevalues_pinned_neg)
    "enumtools_pinned_offset": ("enumtools_c10", lambda cfg: cfg.replace("UsePinnedOffset = FALSE", "UsePinnedOffset = TRUE"), "Inv_Items"),
    "hash_skip_sort": ("hash", lambda cfg: cfg.replace("SkipSort = FALSE", "SkipSort = TRUE"), "Deterministic"),
    "iterimpl_pinned_table": ("iterimpl_i3", lambda cfg: cfg.replace("PinnedTable = FALSE", "PinnedTable = TRUE"), "ConstructorOK"),
}
FOR_PROP = {"C01": ["gencode_i4", "gencode_u4", "gencode_i8"], "C03": ["gencode_i4", "gencode_u4", "gencode_i8"],
            "C04": ["gencode_i4", "gencode_u4"], "C05": ["gencode_i4", "gencode_u4", "gencode_i8"],
            "C02": ["gencode_i4", "iterimpl_i3", "iterimpl_u3", "runner"], "C06": ["iterimpl_i3", "iterimpl_u3", "itermulti"], "C07": ["iterimpl_i3", "iterimpl_u3", "gencode_i4", "itermulti"],
            "C08": ["iterimpl_u3", "itermulti"], "C09": ["resolve"], "C10": ["resolve", "parseattr_c10"], "C13": ["resolve", "parseattr_c13"],
            "C11": ["parsevalues", "enumtools_c11"], "C12": ["parsevalues", "enumtools_c12"], "C14": ["parsevalues", "enumtools_c14"]}
FOR_PROP["C17"] = ["hash"]
FOR_PROP["C10"].append("enumtools_c10")
FOR_PROP["C13"].append("enumtools_c13")


def run_model(name, tier, negative=None):
    d = stimuli.stim_dir()
    tag = negative or name
    cache = os.path.join(d, f"model_{tag}_{tier}.json")
    if os.path.exists(cache):
        return json.load(open(cache))
    base = NEGATIVE[negative][0] if negative else name
    mod, cfg, q = MODELS[base]
    cfg = cfg.format(q=q[tier])
    if negative:
        cfg = NEGATIVE[negative][1](cfg)
    rundir = os.path.join(d, f"run_model_{tag}_{tier}")
    os.makedirs(rundir, exist_ok=True)
    if mod is None:
        module = "Resolve.tla"
    else:
        mname = mod.split()[2]
        module = mname + ".tla"
        open(os.path.join(rundir, module), "w").write(mod)
    cfgname = f"model_{tag}.cfg"
    open(os.path.join(rundir, cfgname), "w").write(cfg)
    out, st = run_tlc(rundir, module, cfgname, workers=8, xmx="8g", timeout=5400)
    res = {"model": tag, "tier": tier, "states": st["distinct"], "transitions": st["states"], "wall_s": st["wall_s"]}
    if negative:
        if tlc_ok(out) or "is violated" not in out or NEGATIVE[negative][2] not in out:
            raise ToolError(f"model {tag}: the named deviation of the pinned tree was NOT found by TLC:\n{out[-1500:]}")
        res["found_deviation"] = True
    elif not tlc_ok(out):
        raise ToolError(f"design-level model {tag} ({tier}) fails:\n{out[-3000:]}")
    atomic_dump(res, cache)
    return res


PROOFS = {"IterAbsProofs": ["C06", "C07", "C08"], "PrimProofs": ["C01", "C03", "C07"]}


def run_proof(name):
    """TLAPS: unbounded companions of theorems that TLC checks on small instances (spec/proofs).  Like the design-level
    models they depend on the specification only; an unproved obligation is a tool error, never a verdict."""
    import subprocess, shutil, re, time
    from tlc import SPEC
    d = stimuli.stim_dir()
    cache = os.path.join(d, f"proof_{name}.json")
    if os.path.exists(cache):
        return json.load(open(cache))
    rundir = os.path.join(d, f"run_proof_{name}")
    shutil.rmtree(rundir, ignore_errors=True)
    os.makedirs(rundir)
    for f in os.listdir(os.path.join(SPEC, "proofs")):
        if f.endswith(".tla"):
            shutil.copy(os.path.join(SPEC, "proofs", f), rundir)
    t0 = time.time()
    try:
        p = subprocess.run(["tlapm", "--threads", "6", "-I", SPEC, name + ".tla"], cwd=rundir, stdout=subprocess.PIPE, stderr=subprocess.STDOUT,
                           text=True, timeout=1200)
        out = p.stdout
    except (subprocess.TimeoutExpired, FileNotFoundError) as e:
        raise ToolError(f"tlapm on {name}: {e}")
    m = re.search(r"All (\d+) obligations? proved", out)
    if not m:
        raise ToolError(f"TLAPS proof {name} does not go through:\n{out[-2000:]}")
    res = {"model": "tlaps:" + name, "obligations_proved": int(m.group(1)), "wall_s": round(time.time() - t0, 1)}
    atomic_dump(res, cache)
    return res


def proofs_for(prop):
    return [run_proof(n) for n, ps in PROOFS.items() if prop in ps]


def for_property(prop, tier):
    return [run_model(m, tier) for m in FOR_PROP.get(prop, [])]


if __name__ == "__main__":
    import sys
    tier = sys.argv[1] if len(sys.argv) > 1 else "quick"
    for m in MODELS:
        print(run_model(m, tier))
    for n in NEGATIVE:
        print(run_model(None, "quick", negative=n))
