#!/usr/bin/env python3
"""seedtest.py <source dir with patch.diff demo.rs meta.json> <seed id> [props...]

Confirms a seeded change in a scratch worktree of /repo (applies; the repository's suite still passes;
the demonstration fails with the change and passes without it), runs the checks against the changed
tree (VERIF_REPO / VERIF_WORK point the machinery at the scratch copies; /repo itself is never touched)
and files it under /verif/seeded/<id>/."""
import os, sys, json, subprocess, shutil, time

ALL = ["C01", "C02", "C03", "C04", "C05", "C06", "C07", "C08", "C09", "C10", "C11", "C12", "C13", "C14", "C15", "C16", "C17", "C18", "C19"]


def sh(cmd, cwd=None, env=None, timeout=3600):
    p = subprocess.run(cmd, cwd=cwd, env=env, shell=isinstance(cmd, str), stdout=subprocess.PIPE, stderr=subprocess.STDOUT, text=True, timeout=timeout)
    return p.returncode, p.stdout


def main():
    src, sid = sys.argv[1], sys.argv[2]
    props = sys.argv[3:] or ALL
    wt = f"/tmp/sw_{sid}"
    work = os.environ.get("SEED_WORK", "/tmp/vw_seed")
    sh(f"git -C /repo worktree remove --force {wt}")
    rc, out = sh(f"git -C /repo worktree add -q --detach {wt} HEAD")
    assert rc == 0, out
    env = dict(os.environ, CARGO_TARGET_DIR=f"{work}/target-demo", CARGO_NET_OFFLINE="true")
    rec = {"id": sid, "source": src}
    try:
        meta = json.load(open(os.path.join(src, "meta.json")))
        rec["property"] = meta.get("property") or meta.get("breaks_property")
        rec["summary"] = meta.get("summary") or meta.get("what")
        rec["needs"] = meta.get("needs")
        shutil.copy(os.path.join(src, "demo.rs"), os.path.join(wt, "tests", "zz_demo.rs"))
        rc, out = sh("cargo test --offline --test zz_demo 2>&1 | tail -5", cwd=wt, env=env)
        rec["demo_clean_passes"] = "test result: ok" in out
        patch = os.path.abspath(os.path.join(src, 'patch.diff'))
        if os.path.exists(os.path.join(src, 'patch_head.diff')):
            patch = os.path.abspath(os.path.join(src, 'patch_head.diff'))     # the change rebased onto the current HEAD
            rec["used_patch"] = "patch_head.diff"
        rc, out = sh(f"git apply {patch}", cwd=wt)
        if rc != 0 and os.environ.get("SEED_BASE"):
            # the patch was written against an older HEAD and a later fix commit touched the same lines: take the touched
            # files from that base commit (the later fixes to those files are lost for this experiment) and apply there
            files = [l[6:].strip() for l in open(patch) if l.startswith("+++ b/")]
            sh("git checkout %s -- %s" % (os.environ["SEED_BASE"], " ".join(files)), cwd=wt)
            rc, out = sh(f"git apply {patch}", cwd=wt)
            rec["applied_on_base_files"] = files
        rec["applies"] = rc == 0
        if rc != 0:
            rec["error"] = out[-500:]
            return rec
        rc, out = sh("cargo test --offline --test zz_demo 2>&1 | tail -30", cwd=wt, env=env)
        rec["demo_fails_with_change"] = "test result: ok" not in out
        os.remove(os.path.join(wt, "tests", "zz_demo.rs"))
        rc, out = sh("cargo test --offline 2>&1 | grep -E '^test result|error' | sort | uniq -c", cwd=wt, env=env)
        rec["suite_passes_with_change"] = "FAILED" not in out and "error" not in out and "ok." in out
        cenv = dict(os.environ, VERIF_REPO=wt, VERIF_WORK=work)
        rec["checks"] = {}
        for p in props:
            t0 = time.time()
            rc, out = sh([os.path.join(os.path.dirname(os.path.dirname(os.path.abspath(__file__))), "check"), p], env=cenv)
            lines = [l for l in out.splitlines() if l.startswith("VIOLATION") or l.startswith("  ") or l.startswith("TOOL-ERROR")]
            rec["checks"][p] = {"rc": rc, "wall_s": round(time.time() - t0, 1), "lines": lines[:6]}
        rec["caught_by"] = [p for p, r in rec["checks"].items() if r["rc"] == 1]
        rec["tool_errors"] = [p for p, r in rec["checks"].items() if r["rc"] not in (0, 1)]
        return rec
    finally:
        sh(f"git -C /repo worktree remove --force {wt}")
        dst = f"/verif/seeded/{sid}"
        os.makedirs(dst, exist_ok=True)
        for f in ("patch.diff", "demo.rs"):
            if os.path.exists(os.path.join(src, f)) and os.path.abspath(src) != os.path.abspath(dst):
                shutil.copy(os.path.join(src, f), os.path.join(dst, f))
        old = {}
        try:
            old = json.load(open(os.path.join(dst, "meta.json")))
        except (OSError, ValueError):
            pass
        m = {"base_commit": old.get("base_commit"), "patch_head": old.get("patch_head"), "used_patch": rec.get("used_patch", "patch.diff"),
             "breaks_property": rec.get("property") or old.get("breaks_property"), "what": rec.get("summary"), "needs": rec.get("needs"),
             "confirmed": {k: rec.get(k) for k in ("applies", "demo_clean_passes", "demo_fails_with_change", "suite_passes_with_change")},
             "ran": "tools/seedtest.py: scratch worktree of /repo HEAD; demo as tests/zz_demo.rs clean and with the change; cargo test --offline with the change; "
                    "/verif/check <id> (quick) for " + " ".join(props) + " with VERIF_REPO pointing at the changed worktree",
             "checks": rec.get("checks"), "caught_by": rec.get("caught_by"), "tool_errors": rec.get("tool_errors")}
        json.dump(m, open(os.path.join(dst, "meta.json"), "w"), indent=1)
        print(json.dumps({k: rec.get(k) for k in ("id", "property", "applies", "demo_clean_passes", "demo_fails_with_change",
                                                   "suite_passes_with_change", "caught_by", "tool_errors")}))


if __name__ == "__main__":
    main()
