"""Shared plumbing of the checks: tree digest, result cache, locking, known findings, evidence."""
import os, sys, json, hashlib, subprocess, time, fcntl, re
from tlc import WORK, VERIF, ToolError, spec_digest

REPO = os.environ.get("VERIF_REPO", "/repo")   # the tree under test (seeded-change experiments point this at a scratch worktree)


def log(*a):
    print("[verif]", *a, file=sys.stderr, flush=True)


def repo_digest():
    """digest of /repo's working tree (tracked + untracked non-ignored files)"""
    p = subprocess.run(["git", "-C", REPO, "ls-files", "-co", "--exclude-standard", "-z"], stdout=subprocess.PIPE, check=True)
    h = hashlib.sha256()
    for f in sorted(p.stdout.split(b"\0")):
        if not f:
            continue
        path = os.path.join(REPO.encode(), f)
        h.update(f + b"\0")
        try:
            with open(path, "rb") as fh:
                h.update(fh.read())
        except (FileNotFoundError, IsADirectoryError):
            h.update(b"<gone>")
        h.update(b"\0")
    return h.hexdigest()[:16]


def tools_digest():
    h = hashlib.sha256()
    for d in ("tools", "harness/rt/src", "spec"):
        base = os.path.join(VERIF, d)
        for root, _, files in sorted(os.walk(base)):
            for f in sorted(files):
                if f.endswith((".py", ".rs", ".tla", ".cfg", ".toml")):
                    h.update(f.encode())
                    h.update(open(os.path.join(root, f), "rb").read())
    return h.hexdigest()[:12]


class Lock:
    def __init__(self, name):
        os.makedirs(WORK, exist_ok=True)
        self.path = os.path.join(WORK, name + ".lock")

    def __enter__(self):
        self.f = open(self.path, "w")
        fcntl.flock(self.f, fcntl.LOCK_EX)
        return self

    def __exit__(self, *a):
        fcntl.flock(self.f, fcntl.LOCK_UN)
        self.f.close()


def cached(engine, tier, seed, compute):
    """engine results are shared by the checks of one (tree digest, tier, seed, tools)"""
    key = f"{engine}-{repo_digest()}-{tier}-{seed}-{tools_digest()}"
    d = os.path.join(WORK, "results")
    os.makedirs(d, exist_ok=True)
    path = os.path.join(d, key + ".json")
    with Lock(engine):
        if os.path.exists(path) and not os.environ.get("VERIF_NOCACHE"):
            return json.load(open(path))
        t0 = time.time()
        res = compute()
        res["engine_wall_s"] = round(time.time() - t0, 1)
        res["key"] = key
        tmp = path + ".tmp"
        json.dump(res, open(tmp, "w"))
        os.replace(tmp, path)
        # keep the cache small: only the most recent results per engine
        olds = sorted((f for f in os.listdir(d) if f.startswith(engine + "-") and f.endswith(".json")),
                      key=lambda f: os.path.getmtime(os.path.join(d, f)))
        for f in olds[:-6]:
            os.remove(os.path.join(d, f))
        return res


def load_known():
    path = os.path.join(VERIF, "known_findings.jsonl")
    out = []
    if os.path.exists(path):
        for line in open(path):
            line = line.strip()
            if line and not line.startswith("#"):
                out.append(json.loads(line))
    return out


def known_match(prop, facts, known):
    """a violation is a known finding iff a `known` entry of the same property matches all its keys
    (regular expressions, searched in the violation's facts).  `fixed` entries suppress nothing."""
    for k in known:
        if k.get("status") != "known" or k.get("property") != prop:
            continue
        ok = True
        for key, pat in k.get("match", {}).items():
            if not re.search(pat, str(facts.get(key, ""))):
                ok = False
                break
        if ok:
            return k
    return None


def write_evidence(prop, tier, seed, level, coverage, assumptions, wall_s, violations):
    # evidence describes runs against /repo only; a seeded-change experiment (VERIF_REPO elsewhere) writes into its work dir
    evdir = os.path.join(VERIF, "evidence") if os.path.realpath(REPO) == "/repo" else os.path.join(WORK, "evidence")
    os.makedirs(evdir, exist_ok=True)
    ev = {"property_id": prop, "tier": tier, "seed": seed, "level": level, "coverage": coverage,
          "assumptions": assumptions, "wall_s": round(wall_s, 1), "violations": violations}
    path = os.path.join(evdir, prop + ".json")
    json.dump(ev, open(path + ".tmp", "w"), indent=1)
    os.replace(path + ".tmp", path)
    return path
