"""TLC-generated stimuli: discriminant sets per repr (spec/Corpus.tla) and transition-covering
iterator operation paths (state graph of spec/MC_IterAbs.tla).  Results are cached under
work/stim/<spec digest>/ — they depend on the specification only, not on the code under test."""
import os, re, json, collections, functools
from concurrent.futures import ThreadPoolExecutor
import prim
from tlc import atomic_dump, run_tlc, tlc_ok, printed, spec_digest, WORK, ToolError

BIG = 1_000_000_000


def stim_dir():
    d = os.path.join(WORK, "stim", spec_digest())
    os.makedirs(d, exist_ok=True)
    return d


def candidates(r):
    """candidate discriminants (real values) of repr r: windows at the smallest declarable value,
    around zero / mid-range and at the largest declarable value, plus two isolated values"""
    lo, hi = prim.dmin(r), prim.dmax(r)
    if prim.signed(r):
        u = [lo, lo + 1, lo + 2, -1, 0, 1, hi - 2, hi - 1, hi, -3, 5]
    else:
        u = [0, 1, 2, 100, 101, 102, hi - 2, hi - 1, hi, 4, 50]
    return sorted(set(u))


def corpus_sets(r, maxcard=11):
    """all non-empty subsets (|S| <= maxcard) of the candidate set of r, as printed by TLC.
    returns (list of {s, probes, runs} in model coordinates, tlc stats)"""
    d = stim_dir()
    cache = os.path.join(d, f"corpus_{r}_{maxcard}.json")
    if os.path.exists(cache):
        return json.load(open(cache))
    p = prim.Proj(r)
    U = [p.to_model(x) for x in candidates(r)]
    far = [p.to_model(x) for x in p.far_reals()]
    rundir = os.path.join(d, f"run_corpus_{r}")
    os.makedirs(rundir, exist_ok=True)
    mod = f"MC_Corpus_{r}"
    open(os.path.join(rundir, mod + ".tla"), "w").write(
        f"---- MODULE {mod} ----\nEXTENDS Corpus\n"
        f"mcTMin == {p.model_tmin()}\nmcTMax == {p.model_tmax()}\n"
        f"mcU == {{{', '.join(map(str, U))}}}\nmcFar == {{{', '.join(map(str, far))}}}\n"
        f"mcMaxCard == {maxcard}\n====\n")
    open(os.path.join(rundir, mod + ".cfg"), "w").write(
        "SPECIFICATION Spec\nCONSTANTS\n TMin <- mcTMin\n TMax <- mcTMax\n U <- mcU\n Far <- mcFar\n MaxCard <- mcMaxCard\n"
        "INVARIANTS ContractSane Emit\nCHECK_DEADLOCK FALSE\n")
    out, st = run_tlc(rundir, mod + ".tla", mod + ".cfg", workers=1)
    if not tlc_ok(out):
        raise ToolError(f"TLC failed on {mod}:\n{out[-3000:]}")
    cases = printed(out, "CASE")
    if len(cases) != st["distinct"]:
        raise ToolError(f"{mod}: {len(cases)} CASE lines for {st['distinct']} states")
    res = {"repr": r, "cases": cases, "stats": st, "U": U, "far": far}
    atomic_dump(res, cache)
    return res


@functools.lru_cache(maxsize=None)
def iter_graph(n):
    """state graph of the iterator contract over n items: nodes = windows (lo,hi), edges = operations.
    returns {"nodes": [[lo,hi],...], "edges": [[src_idx, op, k, dst_idx],...], "stats":...}"""
    d = stim_dir()
    cache = os.path.join(d, f"itergraph2_{n}.json")
    if os.path.exists(cache):
        return json.load(open(cache))
    rundir = os.path.join(d, f"run_iter_{n}")
    os.makedirs(rundir, exist_ok=True)
    ks = sorted({0, 1, 2, max(n - 1, 0), n, BIG})
    ks2 = sorted({0, 1, max(n - 1, 0), n, BIG})
    cfg = f"MC_IterAbs_{n}.cfg"
    open(os.path.join(rundir, cfg), "w").write(
        f"SPECIFICATION Spec\nCONSTANTS N = {n}\n Ks = {{{', '.join(map(str, ks))}}}\n Ks2 = {{{', '.join(map(str, ks2))}}}\n"
        "INVARIANTS WindowAgrees Fused ExactSize Provided\nPROPERTY Shrinks\nCHECK_DEADLOCK FALSE\n")
    dot = os.path.join(rundir, "g.dot")
    out, st = run_tlc(rundir, "MC_IterAbs.tla", cfg, workers=1, extra=["-dump", "dot,actionlabels", dot])
    if not tlc_ok(out):
        raise ToolError(f"TLC failed on MC_IterAbs N={n}:\n{out[-3000:]}")
    nodes, idx, edges = [], {}, []
    node_re = re.compile(r'^(-?\d+) \[label="((?:[^"\\]|\\.)*)"')
    edge_re = re.compile(r'^(-?\d+) -> (-?\d+) \[label="((?:[^"\\]|\\.)*)"')
    for line in open(dot):
        m = edge_re.match(line)
        if m:
            edges.append((m.group(1), m.group(2), m.group(3)))
            continue
        m = node_re.match(line)
        if m:
            w = re.search(r"lo \|-> (-?\d+), hi \|-> (-?\d+)", m.group(2))
            idx[m.group(1)] = len(nodes)
            nodes.append([int(w.group(1)), int(w.group(2))])
    E = []
    for a, b, lab in edges:
        m = re.match(r"(NextF|NextB|NthB|Nth|RTakeC|TakeC|TakeL|RFind|Find)(?:\((\d+)\))?", lab)
        op = {"NextF": "next", "NextB": "next_back", "Nth": "nth", "NthB": "nth_back", "TakeC": "take_count", "RTakeC": "rev_take_count",
              "TakeL": "take_last", "Find": "find", "RFind": "rfind"}[m.group(1)]
        k = int(m.group(2)) if m.group(2) else 0
        E.append([idx[a], op, k, idx[b]])
    E = sorted(set(map(tuple, E)))
    res = {"n": n, "nodes": nodes, "edges": [list(e) for e in E], "stats": st}
    atomic_dump(res, cache)
    return res


@functools.lru_cache(maxsize=None)
def covering_paths(n, start=None):
    """For the graph over n items and the start window (default: full), one path per edge reachable
    from the start: the shortest operation sequence to the edge's source, then the edge.
    returns list of paths; a path is a list of (op, k)."""
    g = iter_graph(n)
    nodes = [tuple(x) for x in g["nodes"]]
    if start is None:
        start = (1, n) if n > 0 else (1, 0)
    s = nodes.index(tuple(start))
    adj = collections.defaultdict(list)
    for a, op, k, b in g["edges"]:
        adj[a].append((op, k, b))
    # BFS shortest prefixes
    pre = {s: []}
    q = collections.deque([s])
    while q:
        u = q.popleft()
        for op, k, v in adj[u]:
            if v not in pre:
                pre[v] = pre[u] + [(op, k)]
                q.append(v)
    paths = []
    for u in sorted(pre, key=lambda x: (len(pre[x]), x)):
        for op, k, v in adj[u]:
            paths.append(pre[u] + [(op, k)])
    return paths


@functools.lru_cache(maxsize=None)
def multi_graph(n, nslots):
    """state graph of `nslots` iterators over n items operated alternately (spec/MC_IterMulti.tla):
    nodes = tuples of windows, edges = (src, slot, op, k, dst); slots are 0-based here"""
    d = stim_dir()
    cache = os.path.join(d, f"multigraph_{n}_{nslots}.json")
    if os.path.exists(cache):
        return json.load(open(cache))
    rundir = os.path.join(d, f"run_multi_{n}_{nslots}")
    os.makedirs(rundir, exist_ok=True)
    cfg = f"MC_IterMulti_{n}_{nslots}.cfg"
    open(os.path.join(rundir, cfg), "w").write(
        f"SPECIFICATION Spec\nCONSTANTS N = {n}\n Ks = {{1, {BIG}}}\n NSlots = {nslots}\n"
        "INVARIANTS Commute\nPROPERTY Independent\nCHECK_DEADLOCK FALSE\n")
    dot = os.path.join(rundir, "g.dot")
    out, st = run_tlc(rundir, "MC_IterMulti.tla", cfg, workers=1, extra=["-dump", "dot,actionlabels", dot])
    if not tlc_ok(out):
        raise ToolError(f"TLC failed on MC_IterMulti N={n} slots={nslots}:\n{out[-3000:]}")
    nodes, idx, edges = [], {}, []
    node_re = re.compile(r'^(-?\d+) \[label="((?:[^"\\]|\\.)*)"')
    edge_re = re.compile(r'^(-?\d+) -> (-?\d+) \[label="((?:[^"\\]|\\.)*)"')
    for line in open(dot):
        m = edge_re.match(line)
        if m:
            edges.append((m.group(1), m.group(2), m.group(3)))
            continue
        m = node_re.match(line)
        if m:
            ws = re.findall(r"lo \|-> (-?\d+), hi \|-> (-?\d+)", m.group(2))
            if len(ws) != nslots:
                raise ToolError(f"MC_IterMulti: cannot parse node label {m.group(2)}")
            idx[m.group(1)] = len(nodes)
            nodes.append([[int(a), int(b)] for a, b in ws])
    E = set()
    for a, b, lab in edges:
        m = re.match(r"(NextF|NextB|NthB|Nth)\((\d+)(?:, *(\d+))?\)", lab)
        if not m:
            raise ToolError(f"MC_IterMulti: cannot parse edge label {lab}")
        op = {"NextF": "next", "NextB": "next_back", "Nth": "nth", "NthB": "nth_back"}[m.group(1)]
        E.add((idx[a], int(m.group(2)) - 1, op, int(m.group(3)) if m.group(3) else 0, idx[b]))
    if len(nodes) != st["distinct"]:
        raise ToolError(f"MC_IterMulti: {len(nodes)} nodes parsed for {st['distinct']} states")
    res = {"n": n, "nslots": nslots, "nodes": nodes, "edges": [list(e) for e in sorted(E)], "stats": st}
    atomic_dump(res, cache)
    return res


@functools.lru_cache(maxsize=None)
def multi_paths(n, nslots):
    """one interleaving per edge of the product graph: the shortest one to the edge's source, then the edge.
    a path is a list of (slot, op, k)"""
    g = multi_graph(n, nslots)
    adj = collections.defaultdict(list)
    for a, sl, op, k, b in g["edges"]:
        adj[a].append((sl, op, k, b))
    s = g["nodes"].index([[1, n]] * nslots if n > 0 else [[1, 0]] * nslots)
    pre = {s: []}
    q = collections.deque([s])
    while q:
        u = q.popleft()
        for sl, op, k, v in adj[u]:
            if v not in pre:
                pre[v] = pre[u] + [(sl, op, k)]
                q.append(v)
    paths = []
    for u in sorted(pre, key=lambda x: (len(pre[x]), x)):
        for sl, op, k, v in adj[u]:
            paths.append(pre[u] + [(sl, op, k)])
    return paths


@functools.lru_cache(maxsize=None)
def cfg_cover(maxuser):
    """every legal configuration with at most `maxuser` user features in every combination of their modes, per shape class,
    with the outcome the resolution model predicts (spec/CfgCover.tla)"""
    d = stim_dir()
    cache = os.path.join(d, f"cfgcover_{maxuser}.json")
    if os.path.exists(cache):
        return json.load(open(cache))
    rundir = os.path.join(d, f"run_cfgcover_{maxuser}")
    os.makedirs(rundir, exist_ok=True)
    cfg = f"CfgCover_{maxuser}.cfg"
    open(os.path.join(rundir, cfg), "w").write(
        f"SPECIFICATION CSpec\nCONSTANTS ModeSlice = \"all\"\n MaxUser = {maxuser}\nINVARIANTS Emit Sane\nCHECK_DEADLOCK FALSE\n")
    out, st = run_tlc(rundir, "CfgCover.tla", cfg, workers=1)
    if not tlc_ok(out):
        raise ToolError(f"TLC failed on CfgCover MaxUser={maxuser}:\n{out[-3000:]}")
    cases = printed(out, "CFG")
    if not cases:
        raise ToolError("CfgCover: no configuration emitted")
    res = {"maxuser": maxuser, "cases": cases, "stats": st,
           "outcomes": len({(tuple(sorted(c["en"])), c["ram"], c["rfm"], c["rtm"], c["rim"], c["off"], c["gapless"]) for c in cases})}
    atomic_dump(res, cache)
    return res


@functools.lru_cache(maxsize=None)
def first_ops(n, start):
    """all single operations from a start window (for range(a,b) constructors)"""
    g = iter_graph(n)
    nodes = [tuple(x) for x in g["nodes"]]
    s = nodes.index(tuple(start))
    return sorted({(op, k) for a, op, k, b in g["edges"] if a == s})


if __name__ == "__main__":
    import sys
    for n in range(1, 7):
        g = iter_graph(n)
        print(n, len(g["nodes"]), len(g["edges"]), len(covering_paths(n)), g["stats"])
    for n, k in ((3, 2), (2, 3), (4, 2)):
        g = multi_graph(n, k)
        print("multi", n, k, len(g["nodes"]), len(g["edges"]), len(multi_paths(n, k)), g["stats"])
    with ThreadPoolExecutor(4) as ex:
        for res in ex.map(corpus_sets, sys.argv[1:] or ["i8", "u8"]):
            print(res["repr"], len(res["cases"]), res["stats"], res["cases"][5])
