"""The surface engine (C15, rustdoc-visible part of C19): TLC-generated cases -> crates built from /repo ->
rustdoc JSON (the compiler's own list of items, visibilities, const-ness, trait impls) -> TLC judge."""
import os, json, time, shutil, subprocess, collections
from concurrent.futures import ThreadPoolExecutor
import render_verdict, engine_verdict, judge, run_rt, stimuli
from tlc import atomic_dump, run_tlc, tlc_ok, printed, ToolError
from common import cached, log, WORK, REPO

NCRATES = 8
ENUMVIS = {"private": "", "up1": "pub(super) ", "up2": "pub(in crate::c%d) ", "crate": "pub(crate) ", "public": "pub "}


def gen_cases():
    d = stimuli.stim_dir()
    cache = os.path.join(d, "surface_cases.json")
    if os.path.exists(cache):
        return json.load(open(cache))
    rundir = os.path.join(d, "run_surface")
    os.makedirs(rundir, exist_ok=True)
    open(os.path.join(rundir, "SurfaceGen.cfg"), "w").write("SPECIFICATION Spec\nINVARIANTS Sane Emit\nCHECK_DEADLOCK FALSE\n")
    out, st = run_tlc(rundir, "SurfaceGen.tla", "SurfaceGen.cfg", workers=1)
    if not tlc_ok(out):
        raise ToolError("TLC failed on SurfaceGen:\n" + out[-3000:])
    cs = printed(out, "CASE")
    if len(cs) != st["distinct"]:
        raise ToolError("SurfaceGen: CASE lines do not match states")
    res = {"cases": cs, "stats": st}
    atomic_dump(res, cache)
    return res


def render(c, cid):
    vis = ENUMVIS[c["enumvis"]]
    if "%d" in vis:
        vis = vis % cid
    # 9 variants of a u8: above the `num_values * size <= 8` threshold, so auto picks next_and_back on holes
    body = "A = 0, B = 1, C = 2, D = 3, E1 = 4, F = 5, G = 6, H = 7, I = 8" if c["gapless"] else "A = 0, B = 5, C = 6, D = 9, E1 = 10, F = 20, G = 21, H = 22, I = 40"
    repr = "u8"
    if c.get("shape") == "runs":
        repr, body = "i16", ", ".join(f"R{j} = {-300 + 53 * j}" for j in range(12))
    elif c.get("shape") == "big":
        repr, body = "i8", ", ".join(f"G{j} = {-35 + j}" for j in range(70))
    return (["pub mod a { pub mod m {", "use ::enum_tools::EnumTools;", "#[derive(Clone, Copy, EnumTools)]"]
            + render_verdict.cfg_attr_lines(c["cfg"]) + [f"#[repr({repr})]", f"{vis}enum E {{ {body} }}", "}}"])


def norm_vis(v, modpath):
    if isinstance(v, str):
        return v
    p = v["restricted"]["path"]
    parts = modpath.split("::")
    for up in range(0, 3):
        if p == "::".join(parts[:len(parts) - up]):
            return ["private", "up1", "up2"][up]
    return "restricted:" + p


# implementation details of the built-in derives on this toolchain (doc(hidden), visible with --document-hidden-items):
# not part of what the EnumTools derive adds
BUILTIN_DERIVE_ARTIFACTS = {"TrivialClone", "StructuralPartialEq"}


def last_seg(path):
    return path.split("::")[-1]


def trait_names(idx, impl_ids):
    out = []
    for i in impl_ids:
        im = idx[str(i)]["inner"]["impl"]
        if im.get("is_synthetic") or im.get("blanket_impl") is not None or im.get("trait") is None:
            continue
        if last_seg(im["trait"]["path"]) not in BUILTIN_DERIVE_ARTIFACTS:
            out.append(last_seg(im["trait"]["path"]))
    return sorted(set(out))


def mentions(ty, eid):
    """does the (JSON) type mention the item with id eid?"""
    if isinstance(ty, dict):
        if "resolved_path" in ty and isinstance(ty["resolved_path"], dict) and ty["resolved_path"].get("id") == eid:
            return True
        return any(mentions(v, eid) for v in ty.values())
    if isinstance(ty, list):
        return any(mentions(v, eid) for v in ty)
    return False


def type_class(ty, eid, idx):
    """the shape of a (JSON) type as far as the documented signatures go: self | opt_self | prim | str | struct:<name> | other"""
    def is_self(t):
        return isinstance(t, dict) and (t.get("generic") == "Self" or (isinstance(t.get("resolved_path"), dict) and t["resolved_path"].get("id") == eid))
    if ty is None:
        return "unit"
    if is_self(ty):
        return "self"
    if "primitive" in ty:
        return "prim"
    if "borrowed_ref" in ty:
        b = ty["borrowed_ref"]
        return "str" if b.get("lifetime") == "'static" and not b.get("is_mutable") and (b.get("type") or {}).get("primitive") == "str" else "other"
    rp = ty.get("resolved_path")
    if isinstance(rp, dict):
        if last_seg(rp.get("path", "")) == "Option":
            args = ((rp.get("args") or {}).get("angle_bracketed") or {}).get("args") or []
            if len(args) == 1 and is_self(args[0].get("type")):
                return "opt_self"
            return "other"
        it = idx.get(str(rp.get("id")))
        if it is not None and "struct" in it["inner"]:
            return "struct:" + it["name"]
    return "other"


def observe(j, crate_cases):
    """{case_id: observation} from one rustdoc JSON document"""
    idx = j["index"]
    root = idx[str(j["root"])]
    by_name = {}
    for i in root["inner"]["module"]["items"]:
        it = idx[str(i)]
        by_name[it["name"]] = it
    # From<E> for <primitive> / <&str> impls are not listed under the enum
    foreign = []
    for it in idx.values():
        im = it["inner"].get("impl")
        if im and im.get("trait") and last_seg(im["trait"]["path"]) == "From" and not im.get("blanket_impl"):
            foreign.append(im)
    obs = {}
    for cid in crate_cases:
        m = by_name.get(f"c{cid}")
        if m is None:
            continue
        cur, path = m, f"::c{cid}"
        for seg in ("a", "m"):
            nxt = None
            for i in cur["inner"]["module"]["items"]:
                if idx[str(i)]["name"] == seg:
                    nxt = idx[str(i)]
            cur = nxt
            path += "::" + seg
        items, structs, traits = [], [], []
        enum = None
        for i in cur["inner"]["module"]["items"]:
            it = idx[str(i)]
            kind = list(it["inner"].keys())[0]
            if kind == "use":
                continue
            if kind == "enum" and it["name"] == "E":
                enum = it
                continue
            tr = trait_names(idx, it["inner"][kind].get("impls", [])) if kind in ("struct", "enum", "union") else []
            structs.append({"name": it["name"], "vis": norm_vis(it["visibility"], path), "traits": tr})
        if enum is None:
            raise ToolError(f"rustdoc JSON: enum of case {cid} not found")
        eid = enum["id"]
        for i in enum["inner"]["enum"]["impls"]:
            im = idx[str(i)]["inner"]["impl"]
            if im.get("is_synthetic") or im.get("blanket_impl") is not None:
                continue
            if im.get("trait") is None:
                for k in im["items"]:
                    it = idx[str(k)]
                    kind = list(it["inner"].keys())[0]
                    ty = it["inner"]["function"]["sig"].get("output") if kind == "function" else (it["inner"][kind].get("type") if kind == "assoc_const" else None)
                    items.append({"name": it["name"], "kind": {"function": "fn", "assoc_const": "const"}.get(kind, kind),
                                  "vis": norm_vis(it["visibility"], path), "sig": type_class(ty, eid, idx),
                                  "isconst": bool(kind == "function" and it["inner"]["function"]["header"]["is_const"])})
            elif im["for"].get("resolved_path", {}).get("id") == eid and last_seg(im["trait"]["path"]) not in BUILTIN_DERIVE_ARTIFACTS:
                traits.append(last_seg(im["trait"]["path"]))
        for im in foreign:
            if mentions(im["trait"].get("args"), eid):
                if "primitive" in im["for"]:
                    traits.append("Into")
                elif "borrowed_ref" in im["for"]:
                    traits.append("IntoStr")
                else:
                    traits.append("From<E> for ?")
        obs[cid] = {"items": items, "structs": structs, "traits": sorted(set(traits)), "enum_vis_seen": norm_vis(enum["visibility"], path)}
    return obs


def compute(tier, seed):
    t0 = time.time()
    g = gen_cases()
    cases = g["cases"]
    for i, c in enumerate(cases, 1):
        c["id"] = i
    log(f"surface: {len(cases)} cases from TLC")
    root = os.path.join(WORK, "surface")
    os.makedirs(root, exist_ok=True)
    chunks = [[] for _ in range(NCRATES)]
    for i, c in enumerate(cases):
        chunks[i % NCRATES].append((c["id"], render(c, c["id"])))
    # the derive adds `use ::enum_tools::EnumTools` inside module m, not at case level
    ws, spans = engine_verdict.write_ws(root, "sf", [[(cid, lines) for cid, lines in ch] for ch in chunks], True)
    rej = engine_verdict.peel(ws, spans, "surface build")
    env = run_rt.cargo_env()
    env["RUSTC_BOOTSTRAP"] = "1"

    def doc(cn):
        p = subprocess.run(["cargo", "rustdoc", "--offline", "-p", cn, "--lib", "--", "-Zunstable-options", "--output-format", "json",
                            "--document-private-items", "--document-hidden-items", "--cap-lints", "allow"], cwd=ws, env=env, stdout=subprocess.PIPE, stderr=subprocess.PIPE, text=True)
        if p.returncode != 0:
            raise ToolError(f"cargo rustdoc failed for {cn}:\n{p.stderr[-3000:]}")
        j = json.load(open(os.path.join(run_rt.TARGET, "doc", cn + ".json")))
        return observe(j, [cid for cid, a, b in spans[cn] if cid not in rej])
    obs = {}
    with ThreadPoolExecutor(4) as ex:
        for o in ex.map(doc, list(spans)):
            obs.update(o)
    log(f"surface: rustdoc JSON read for {len(obs)} cases, {len(rej)} do not build, {time.time() - t0:.1f}s")
    path = os.path.join(root, "surface.ndjson")
    first = {}      # (declaration, item name) -> (line of the first event with that item, its const-ness)
    with open(path, "w") as f:
        for ln, c in enumerate(cases, 1):
            o = obs.get(c["id"])
            cc = {k: c[k] for k in ("enumvis", "cfg", "gapless")}
            if o is None:
                ev = {"ev": "surface", "case": c["id"], "c": cc, "built": False, "items": [], "structs": [], "traits": [], "msg": rej.get(c["id"], "")[:160],
                      "peer": []}
            else:
                peer = []
                for it in o["items"]:
                    key = (c["enumvis"], c["gapless"], c.get("shape", "std"), it["name"], it["kind"])
                    if key in first:
                        peer.append({"name": it["name"], "isconst": first[key][1], "ref": first[key][0]})
                    else:
                        first[key] = (ln, it["isconst"])
                ev = {"ev": "surface", "case": c["id"], "c": cc, "built": True, "items": o["items"], "structs": o["structs"],
                      "traits": o["traits"], "msg": "", "peer": peer}
            f.write(json.dumps(ev) + "\n")
    viols, jst = judge.judge_shards([{"trace": path, "events": len(cases)}], module="TraceSurface", log=log)
    byid = {c["id"]: c for c in cases}
    out = []
    for v in viols:
        c = byid[v["case"]]
        out.append({"props": v["props"], "why": v["why"], "case": v["case"], "msg": v.get("msg", ""),
                    "attrs": " ".join(render_verdict.cfg_attr_lines(c["cfg"])), "enumvis": c["enumvis"], "gapless": c["gapless"],
                    "rust": "\n".join(render(c, c["id"])), "observed": obs.get(v["case"])})
    samples = [{"case": c["id"], "rust": render(c, c["id"])[3:6], "observed": obs.get(c["id"])} for c in (cases[:1] + cases[len(cases) // 2:len(cases) // 2 + 1])]
    return {"violations": out, "n_cases": len(cases), "not_built": len(rej), "samples": samples,
            "tlc": {"stimuli": {"states": g["stats"]["distinct"], "transitions": g["stats"]["states"]}, "judge": jst}}


def results(tier, seed):
    return cached("surface", tier, seed, lambda: compute(tier, seed))


if __name__ == "__main__":
    r = compute("quick", 0)
    print({k: v for k, v in r.items() if k not in ("violations", "samples")})
    c = collections.Counter((tuple(v["props"]), v["why"]) for v in r["violations"])
    for k, n in c.most_common(20):
        print(n, k)
    for v in r["violations"][:3]:
        print(json.dumps(v)[:1500])
