#!/bin/sh
# runs one thorough check per engine (rt, verdict, surface, expand) and prints the exit codes -- used from `vp run`
./setup || exit 2
for c in C17 C15 C10 C01 C06 C09; do
  /usr/bin/time -f "$c %es" ./check $c --tier thorough > thorough_$c.log 2>&1
  echo "$c rc=$? $(tail -1 thorough_$c.log | cut -c1-200)"
done
