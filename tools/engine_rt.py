"""The run-time conformance engine: TLC stimuli -> corpus crate built from /repo -> traces -> TLC judge."""
import os, re, json, time, collections
import corpus_rt, run_rt, judge, stimuli, render
from common import cached, log, WORK

FN_PROP = {"try_from": "C01", "try_from_t": "C01", "into": "C01", "into_t": "C01",
           "as_str": "C03", "display": "C03", "debug": "C03", "into_str": "C03",
           "from_str": "C04", "from_str_t": "C04", "min": "C05", "max": "C05", "next": "C05", "next_back": "C05",
           "zip": "C08"}
SRC_PROP = {"iter": "C06", "range": "C07", "names": "C08"}
FN_RE = re.compile(r'"fn":"([a-z_]+)"')
SRC_RE = re.compile(r'"src":"([a-z]+)"')
SLOT_RE = re.compile(r'"slot":(\d+)')


def coverage_counts(shards, meta):
    """bookkeeping for the evidence files: events and cases per item property / group property"""
    ev = collections.Counter()
    cases = collections.defaultdict(set)
    gprop = {c["id"]: c["gprop"] for b in meta["bins"] for c in b["cases"]}
    kinds = collections.Counter()
    for sh in shards:
        cur_case, cur_src = None, {}
        with open(sh["trace"]) as f:
            for line in f:
                head = line[:160]
                if '"ev":"decl"' in head or '"ev":"compile_fail"' in head:
                    cur_case = int(re.search(r'"case":(\d+)', head).group(1))
                    cur_src = {}
                    continue
                p = None
                if '"ev":"call"' in head:
                    p = FN_PROP.get(FN_RE.search(head).group(1))
                elif '"ev":"it_new"' in head:
                    cur_src[SLOT_RE.search(head).group(1)] = SRC_RE.search(head).group(1)
                    p = SRC_PROP[SRC_RE.search(head).group(1)]
                elif '"ev":"it_' in head:
                    p = SRC_PROP.get(cur_src.get(SLOT_RE.search(head).group(1)))
                if p:
                    ev[p] += 1
                    cases[p].add(cur_case)
                    g = gprop.get(cur_case)
                    if g:
                        ev[g] += 1
                        cases[g].add(cur_case)
                    ev["C02"] += 1
                    cases["C02"].add(cur_case)
    return {p: {"events": ev[p], "cases": len(cases[p])} for p in ev}


def compute(tier, seed):
    t0 = time.time()
    pl = corpus_rt.build_plan(tier, seed)
    crate = os.path.join(WORK, "rt", tier)
    meta = corpus_rt.write_crate(pl, crate)
    cases = {c["id"]: c for g in pl.groups for c in g["cases"]}
    log(f"rt[{tier}]: {len(pl.groups)} groups, {len(cases)} cases planned in {time.time() - t0:.1f}s")
    # C02: a small corpus covering every unsafe site is executed under Miri as well (in parallel with the main corpus)
    miri = {"cases": 0, "events": 0, "aborts": 0}
    mbox = {}
    mthread = None
    if os.environ.get("VERIF_NO_MIRI") != "1":
        mpl = corpus_rt.build_plan("miri" if tier == "quick" else "miri_thorough", seed)
        # one case per binary (Miri is slow; the binaries run in parallel); ids must not collide with the main corpus
        mpl.groups = [{"id": f"m{c['id']}", "gprop": "", "cases": [c], "kind": "miri"} for g in mpl.groups for c in g["cases"]]
        for g in mpl.groups:
            for c in g["cases"]:
                c["id"] += 1000000
        mcrate = os.path.join(WORK, "rt", "miri")
        mmeta = corpus_rt.write_crate(mpl, mcrate, cases_per_bin=0, rustflags=False)

        def miri_job():
            try:
                mbox["res"] = run_rt.miri_run(mcrate, mmeta, os.path.join(mcrate, "traces"), log=log, jobs=8)
            except Exception as e:      # re-raised in the main thread
                mbox["err"] = e
        import threading
        mthread = threading.Thread(target=miri_job)
        mthread.start()
    failed, shards, aborts = run_rt.build_and_run(crate, meta, cases, os.path.join(crate, "traces"), log=log)
    if mthread:
        mthread.join()
        if "err" in mbox:
            raise mbox["err"]
        mshards, maborts = mbox["res"]
        miri = {"cases": sum(len(b["cases"]) for b in mmeta["bins"]), "events": sum(s_["events"] for s_ in mshards), "aborts": maborts}
        for b in mmeta["bins"]:
            for c in b["cases"]:
                c["label"] = "miri:" + c["label"]
            b["src"] = os.path.relpath(os.path.join(mcrate, b["src"]), crate)
            b["script"] = os.path.relpath(os.path.join(mcrate, b["script"]), crate)
        meta["bins"] += mmeta["bins"]
        for g in mpl.groups:
            for c in g["cases"]:
                cases[c["id"]] = c
        shards += mshards
    # C02: the small corpus once more, optimised and without debug assertions / overflow checks
    rel = {"cases": 0, "events": 0}
    if os.environ.get("VERIF_NO_RELEASE") != "1":
        rpl = corpus_rt.build_plan("mini" if tier == "quick" else "miri_thorough", seed)
        for g in rpl.groups:
            g["id"] = "r" + g["id"]
            for c in g["cases"]:
                c["id"] += 2000000
                c["label"] = "release:" + c["label"]
        rcrate = os.path.join(WORK, "rt", "release")
        rmeta = corpus_rt.write_crate(rpl, rcrate, cases_per_bin=12)
        rshards, raborts = run_rt.release_run(rcrate, rmeta, os.path.join(rcrate, "traces"), log=log)
        rel = {"cases": sum(len(b["cases"]) for b in rmeta["bins"]), "events": sum(s_["events"] for s_ in rshards), "aborts": raborts}
        for b in rmeta["bins"]:
            b["src"] = os.path.relpath(os.path.join(rcrate, b["src"]), crate)
            b["script"] = os.path.relpath(os.path.join(rcrate, b["script"]), crate)
        meta["bins"] += rmeta["bins"]
        for g in rpl.groups:
            for c in g["cases"]:
                cases[c["id"]] = c
        shards += rshards
    # C16 / C11: the same derive used from crates of the other editions (tokens the derive emits with a span of the USER's
    # input are read in the user's edition: method resolution of `.into_iter()` on arrays, path resolution of `::core`, ...)
    eds = {"cases": 0, "events": 0, "editions": []}
    if os.environ.get("VERIF_NO_EDITIONS") != "1":
        for k, ed in enumerate(("2015", "2018", "2024")):
            epl = corpus_rt.build_plan("editions", seed)
            # every twin derives the same enums in another ORDER (groups and the members of a group are permuted): an enum
            # whose output or acceptance depends on which enums were derived before it in the same compiler process
            # behaves differently in one of the twins
            import random as _random
            _r = _random.Random(f"twin-order-{ed}-{seed}")
            _r.shuffle(epl.groups)
            for g in epl.groups:
                _r.shuffle(g["cases"])
            for g in epl.groups:
                g["id"] = f"e{ed}" + g["id"]
                for c in g["cases"]:
                    c["id"] += 3000000 + 100000 * k
                    c["label"] = f"edition{ed}:" + c["label"]
            ecrate = os.path.join(WORK, "rt", "edition" + ed)
            emeta = corpus_rt.write_crate(epl, ecrate, cases_per_bin=40, edition=ed)
            ecases = {c["id"]: c for g in epl.groups for c in g["cases"]}
            efailed, eshards, eaborts = run_rt.build_and_run(ecrate, emeta, ecases, os.path.join(ecrate, "traces"), log=log)
            eds["cases"] += len(ecases)
            eds["events"] += sum(s_["events"] for s_ in eshards)
            eds["editions"].append(ed)
            for b in emeta["bins"]:
                b["src"] = os.path.relpath(os.path.join(ecrate, b["src"]), crate)
                b["script"] = os.path.relpath(os.path.join(ecrate, b["script"]), crate)
            meta["bins"] += emeta["bins"]
            cases.update(ecases)
            failed.update(efailed)
            shards += eshards
            aborts += eaborts
    viols, jst = judge.judge_shards(shards, log=log)
    cov = coverage_counts(shards, meta)
    cm = {}
    for b in meta["bins"]:
        for c in b["cases"]:
            cm[c["id"]] = {k: c[k] for k in ("grp", "gprop", "kind", "label", "repr", "n", "attrs", "ctx")}
            cm[c["id"]]["src"] = [os.path.join(crate, b["src"] + ".orig"), c["start"], c["end"]]
            cm[c["id"]]["script"] = os.path.join(crate, b["script"])
            if c.get("lib"):
                cm[c["id"]]["libsrc"] = [os.path.join(crate, "src", "lib.rs.orig"), c["lib"]["start"], c["lib"]["end"]]
    for sh in shards:
        for cid, line in sh.get("first_line", {}).items():
            if cid in cm:
                cm[cid]["trace"] = [sh["trace"], line]
    # compact violations
    out = []
    for v in viols:
        e = v["ev"]
        item = e.get("fn") or e.get("op") or e.get("src") or e.get("where") or e.get("ev")
        ev = dict(e)
        if isinstance(ev.get("res"), dict) and "q" in ev["res"] and len(ev["res"]["q"]) > 12:
            ev["res"] = dict(ev["res"], q=ev["res"]["q"][:12] + ["..."])
        out.append({"props": v["props"], "why": v["why"], "case": v["case"], "line": v["line"],
                    "shard": v["shard"], "item": item, "ev": ev})
    kinds = collections.Counter(g["kind"] for g in pl.groups for _ in g["cases"])
    return {"tier": tier, "seed": seed, "violations": out, "cases": {str(k): v for k, v in cm.items()},
            "failed": {str(k): v for k, v in failed.items()}, "coverage": cov,
            "tlc": {"stimuli": pl.stim_stats, "judge": jst}, "aborts": aborts, "miri": miri, "release": rel, "editions": eds,
            "n_cases": len(cases), "n_groups": len(pl.groups), "kinds": dict(kinds),
            "events": sum(s["events"] for s in shards), "shards": len(shards), "crate": crate}


def results(tier, seed):
    return cached("rt", tier, seed, lambda: compute(tier, seed))
