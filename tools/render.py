"""Abstract case -> Rust text (declaration + harness glue).  Pure rendering, no expectations.

A case is a dict:
  id        int
  repr      "i8" ...
  enum_vis  "pub" (default) | "" | "pub(crate)" ...
  variants  list in DECLARATION order of {ident, real, lit (None = implicit), rename (None or str),
            attrs (extra attribute lines, optional)}
  cfg       {"feats": [(feature, {param: value})...], "split": "one"|"each", "sorted": [..] or None,
             "extra_attrs": [lines]}
  ctx       name of a scope context (see contexts.py) or "plain"
"""
import prim

FEATURES = ["as_str", "from_str", "into", "MAX", "MIN", "next", "next_back", "try_from",
            "Debug", "Display", "FromStr", "Into", "IntoStr", "TryFrom", "iter", "names", "range"]
DEFAULT_NAME = {"as_str": "as_str", "from_str": "from_str", "into": "into", "MAX": "MAX", "MIN": "MIN",
                "next": "next", "next_back": "next_back", "try_from": "try_from", "iter": "iter",
                "names": "names", "range": "range"}


def rust_str(s):
    out = ['"']
    for ch in s:
        if ch.isascii() and (ch.isalnum() or ch in " _-+*.,:;!?()[]<>=/{}#@$%^&|~'"):
            out.append(ch)
        else:
            out.append("\\u{%x}" % ord(ch))
    out.append('"')
    return "".join(out)


def feat_text(f, params):
    if not params:
        return f
    parts = []
    for k, v in params.items():
        if v is True:
            parts.append(k)
        else:
            parts.append(f"{k} = {rust_str(v)}")
    return f"{f}({', '.join(parts)})"


def attr_lines(cfg):
    feats = [feat_text(f, p) for f, p in cfg["feats"]]
    if cfg.get("sorted") is not None:
        feats = [("sorted(" + ", ".join(cfg["sorted"]) + ")")] + feats
    lines = []
    split = cfg.get("split", "one")
    if split == "one":
        if feats:
            lines.append(f"#[enum_tools({', '.join(feats)})]")
    elif split == "each":
        for f in feats:
            lines.append(f"#[enum_tools({f})]")
    else:  # explicit partition: list of lists of indices
        for part in split:
            lines.append(f"#[enum_tools({', '.join(feats[i] for i in part)})]")
    return lines + list(cfg.get("extra_attrs", []))


def unraw(ident):
    """`r#async` names `async`: the default struct names are EnumName + Iter / Names built from the name"""
    return ident[2:] if ident.startswith("r#") else ident


def decl_lines(case, derive=True, ename="E"):
    out = []
    if derive:
        out.append("#[derive(::core::clone::Clone, ::core::marker::Copy, ::enum_tools::EnumTools)]")
        out += attr_lines(case["cfg"])
    else:
        out.append("#[derive(::core::clone::Clone, ::core::marker::Copy)]")
    out.append(f"#[repr({case['repr']})]")
    vis = case.get("enum_vis", "pub")
    out.append(f"{vis + ' ' if vis else ''}enum {ename} {{")
    for v in case["variants"]:
        pre = ""
        for a in v.get("attrs", []):
            out.append("    " + a)      # own line: a doc comment swallows the rest of its line
        if derive and v.get("rename") is not None:
            pre += f"#[enum_tools(rename = {rust_str(v['rename'])})] "
        if v.get("lit") is None:
            out.append(f"    {pre}{v['ident']},")
        else:
            out.append(f"    {pre}{v['ident']} = {v['lit']},")
    out.append("}")
    return out


def names_of(cfg):
    """feature -> generated item name, for enabled features"""
    res = {}
    for f, p in cfg["feats"]:
        res[f] = p.get("name", DEFAULT_NAME.get(f, f))
    return res


def glue_lines(case, ename="E", path="super::d"):
    r = case["repr"]
    nm = names_of(case["cfg"])
    vs = case["variants"]
    n = len(vs)
    L = []
    L.append(f"use {path}::{ename} as E;")
    pairs = ", ".join('("%s", E::%s)' % (v["ident"], v["ident"]) for v in vs)
    L.append("static VS: [(&'static str, E); %d] = [%s];" % (n, pairs))
    L.append("struct Vars; impl ::core::ops::Index<usize> for Vars { type Output = E; fn index(&self, i: usize) -> &E { &VS[i].1 } }")
    L.append("static VARS: Vars = Vars;")
    L.append(f"fn cv(v: E) -> u128 {{ (v as {r}) as u128 }}")
    L.append("pub fn case() -> ::rt::Case {")
    L.append("    let mut c = ::rt::Case::default();")
    L.append(f"    c.id = {case['id']}; c.signed = {'true' if prim.signed(r) else 'false'};")
    L.append("    c.variants = VS.iter().map(|(n, v)| (*n, cv(*v))).collect();")
    if "try_from" in nm:
        L.append(f"    c.try_from = Some(|b| {{ let r: ::core::option::Option<E> = E::{nm['try_from']}(b as {r}); r.map(cv) }});")
    if "TryFrom" in nm:
        L.append(f"    c.try_from_t = Some(|b| {{ let r: ::core::result::Result<E, ()> = <E as ::core::convert::TryFrom<{r}>>::try_from(b as {r}); r.ok().map(cv) }});")
    if "into" in nm:
        L.append(f"    c.into = Some(|i| {{ let x: {r} = E::{nm['into']}(VARS[i]); x as u128 }});")
    if "Into" in nm:
        L.append(f"    c.into_t = Some(|i| <{r} as ::core::convert::From<E>>::from(VARS[i]) as u128);")
    if "as_str" in nm:
        L.append(f"    c.as_str = Some(|i| {{ let s: &'static str = E::{nm['as_str']}(VARS[i]); s.to_string() }});")
    if "Display" in nm:
        L.append("    c.display = Some(|i| format!(\"{}\", VARS[i]));")
    if "Debug" in nm:
        L.append("    c.debug = Some(|i| format!(\"{:?}\", VARS[i]));")
    if "IntoStr" in nm:
        L.append("    c.into_str = Some(|i| <&'static str as ::core::convert::From<E>>::from(VARS[i]).to_string());")
    if "from_str" in nm:
        L.append(f"    c.from_str = Some(|s| {{ let r: ::core::option::Option<E> = E::{nm['from_str']}(s); r.map(cv) }});")
    if "FromStr" in nm:
        L.append("    c.from_str_t = Some(|s| { let r: ::core::result::Result<E, ()> = <E as ::core::str::FromStr>::from_str(s); r.ok().map(cv) });")
    if "MIN" in nm:
        L.append(f"    c.min = Some(|| cv(E::{nm['MIN']}));")
    if "MAX" in nm:
        L.append(f"    c.max = Some(|| cv(E::{nm['MAX']}));")
    if "next" in nm:
        L.append(f"    c.next = Some(|i| {{ let r: ::core::option::Option<E> = E::{nm['next']}(VARS[i]); r.map(cv) }});")
    if "next_back" in nm:
        L.append(f"    c.next_back = Some(|i| {{ let r: ::core::option::Option<E> = E::{nm['next_back']}(VARS[i]); r.map(cv) }});")
    if "iter" in nm:
        L.append(f"    c.iter = Some(|| Box::new(::rt::It(E::{nm['iter']}(), |v: E| ::rt::Obs::Val(cv(v)))));")
    if "range" in nm:
        L.append(f"    c.range = Some(|a, b| Box::new(::rt::It(E::{nm['range']}(VARS[a], VARS[b]), |v: E| ::rt::Obs::Val(cv(v)))));")
    if "names" in nm:
        L.append(f"    c.names = Some(|| Box::new(::rt::ItOrd(E::{nm['names']}(), |s: &'static str| ::rt::Obs::Str(s.to_string()))));")
    if "iter" in nm and "names" in nm:
        L.append(f"    c.zip = Some(|| E::{nm['iter']}().zip(E::{nm['names']}()).map(|(v, s)| (cv(v), s.to_string())).collect());")
    L.append("    c")
    L.append("}")
    # C19: the documented signatures, as compile-time ascriptions (never executed).  A deviation makes the
    # glue of this case fail to compile, which is reported as a C19 violation.
    iter_struct = f"{path}::" + dict(case["cfg"]["feats"]).get("iter", {}).get("struct_name", f"{unraw(ename)}Iter")
    names_struct = f"{path}::" + dict(case["cfg"]["feats"]).get("names", {}).get("struct_name", f"{unraw(ename)}Names")
    v0 = vs[0]["ident"]
    L.append("#[allow(dead_code)] fn sigs() {")
    if "into" in nm:
        L.append(f"    const _I: {r} = E::{nm['into']}(E::{v0}); static _S: {r} = E::{nm['into']}(E::{v0}); let _a = [0u8; (E::{nm['into']}(E::{v0}) as usize) & 1];")
        L.append(f"    let _: fn(E) -> {r} = E::{nm['into']};")
    if "MIN" in nm:
        L.append(f"    const _MIN: E = E::{nm['MIN']};")
    if "MAX" in nm:
        L.append(f"    const _MAX: E = E::{nm['MAX']};")
    if "next" in nm:
        L.append(f"    let _: fn(E) -> ::core::option::Option<E> = E::{nm['next']};")
    if "next_back" in nm:
        L.append(f"    let _: fn(E) -> ::core::option::Option<E> = E::{nm['next_back']};")
    if "try_from" in nm:
        L.append(f"    let _: fn({r}) -> ::core::option::Option<E> = E::{nm['try_from']};")
    if "from_str" in nm:
        L.append(f"    let _: fn(&str) -> ::core::option::Option<E> = E::{nm['from_str']};")
    if "as_str" in nm:
        L.append(f"    let _: fn(E) -> &'static str = E::{nm['as_str']};")
    if "iter" in nm:
        L.append(f"    let _: fn() -> {iter_struct} = E::{nm['iter']};")
        L.append(f"    fn is_it<T: ::core::iter::Iterator<Item = E> + ::core::iter::DoubleEndedIterator + ::core::iter::ExactSizeIterator + ::core::iter::FusedIterator>() {{}} is_it::<{iter_struct}>();")
    if "range" in nm:
        L.append(f"    let _: fn(E, E) -> {iter_struct} = E::{nm['range']};")
    if "names" in nm:
        L.append(f"    let _: fn() -> {names_struct} = E::{nm['names']};")
        L.append(f"    fn is_nm<T: ::core::iter::Iterator<Item = &'static str> + ::core::iter::DoubleEndedIterator + ::core::iter::ExactSizeIterator + ::core::iter::FusedIterator>() {{}} is_nm::<{names_struct}>();")
    if "FromStr" in nm:
        L.append("    let _: <E as ::core::str::FromStr>::Err = ();")
    if "TryFrom" in nm:
        L.append(f"    let _: <E as ::core::convert::TryFrom<{r}>>::Error = ();")
    if "Debug" in nm:
        L.append("    fn is_dbg<T: ::core::fmt::Debug>() {} is_dbg::<E>();")
    if "Display" in nm:
        L.append("    fn is_dsp<T: ::core::fmt::Display>() {} is_dsp::<E>();")
    if "Into" in nm:
        L.append(f"    fn is_from<T: ::core::convert::From<E>>() {{}} is_from::<{r}>();")
    if "IntoStr" in nm:
        L.append("    fn is_froms<T: ::core::convert::From<E>>() {} is_froms::<&'static str>();")
    L.append("}")
    return L


def case_module(case, ctx_prelude=None, extern_decl=None):
    """returns (lines, decl_range, glue_range) with 0-based line offsets relative to the module start.
    extern_decl: path of the module holding the declaration when it lives in another crate (no_std library)"""
    L = [f"pub mod c{case['id']} {{"]
    d0 = d1 = len(L)
    if extern_decl is None:
        L.append("    pub mod d {")
        inner = [x for x in (ctx_prelude or []) if x.startswith("#![")]
        for x in inner:
            L.append("        " + x)
        for x in (ctx_prelude or []):
            if x not in inner:
                L.append("        " + x.replace("@E@", case.get("ename", "E")))
        d0 = len(L)
        for x in decl_lines(case, ename=case.get("ename", "E")):
            L.append("        " + x)
        d1 = len(L)
        L.append("    }")
    L.append("    pub mod g {")
    g0 = len(L)
    for x in glue_lines(case, ename=case.get("ename", "E"), path=extern_decl or "super::d"):
        L.append("        " + x)
    g1 = len(L)
    L.append("    }")
    L.append("}")
    return L, (d0, d1), (g0, g1)


def decl_module(case, ctx_prelude=None):
    """the declaration alone, as a module of the #![no_std] corpus library. returns (lines, decl_range)"""
    L = [f"pub mod c{case['id']} {{", "    pub mod d {"]
    inner = [x for x in (ctx_prelude or []) if x.startswith("#![")]
    for x in inner:
        L.append("        " + x)
    for x in (ctx_prelude or []):
        if x not in inner:
            L.append("        " + x.replace("@E@", case.get("ename", "E")))
    d0 = len(L)
    for x in decl_lines(case, ename=case.get("ename", "E")):
        L.append("        " + x)
    d1 = len(L)
    L += ["    }", "}"]
    return L, (d0, d1)
