"""check <Cxx> --replay <file>: re-run one recorded violation against /repo's current tree.
rt: the recorded case (Rust source + script) is rebuilt alone, run, and its trace judged by TLC again.
other engines: the recorded Rust item is rebuilt alone and the verdict / surface / expansion compared."""
import os, sys, json, shutil, subprocess
import corpus_rt, run_rt, judge
from common import log, WORK, REPO
from tlc import ToolError


def run(prop, path):
    r = json.load(open(path))
    eng = r.get("engine")
    root = os.path.join(WORK, "replay_run")
    if os.path.exists(root):
        shutil.rmtree(root)
    if eng == "rt":
        if not r.get("script") or "<source no longer" in r.get("rust", ""):
            raise ToolError("replay file lacks the case source / script")
        cid = r["case"]
        os.makedirs(os.path.join(root, "src", "bin"))
        os.makedirs(os.path.join(root, "scripts"))
        os.makedirs(os.path.join(root, ".cargo"))
        rt = os.path.join(os.path.dirname(os.path.dirname(os.path.abspath(__file__))), "harness", "rt")
        open(os.path.join(root, "Cargo.toml"), "w").write(corpus_rt.CARGO_TOML % {"rt": rt, "repo": REPO, "edition": r.get("edition", "2021")})
        shutil.copy(os.path.join(REPO, "Cargo.lock"), os.path.join(root, "Cargo.lock"))
        open(os.path.join(root, ".cargo", "config.toml"), "w").write("[net]\noffline = true\n")
        src = ["#![allow(warnings)]"] + r["rust"].split("\n")
        n = len(src)
        src += [f"fn main() {{ ::rt::main(vec![c{cid}::g::case]); }}"]
        open(os.path.join(root, "src", "bin", "b000.rs"), "w").write("\n".join(src) + "\n")
        open(os.path.join(root, "src", "lib.rs"), "w").write("#![no_std]\n#![allow(warnings)]\n" + (r.get("rust_lib") or "") + "\n")
        open(os.path.join(root, "scripts", "b000.txt"), "w").write("\n".join(r["script"]) + "\n")
        rc, msgs, err = run_rt.cargo_json(root, ["--bins"])
        errs = run_rt.errors_of(msgs)
        if rc != 0:
            print(f"VIOLATION property={prop} replay={path}")
            print("  the case still does not compile: " + "; ".join(m for _, _, m, _ in errs[:3]))
            return 1
        trace = os.path.join(root, "trace.raw")
        run_rt.run_bin(os.path.join(run_rt.TARGET, "debug", "b000"), os.path.join(root, "scripts", "b000.txt"), trace)
        lines = open(trace).read().split("\n")
        out = os.path.join(root, "trace.ndjson")
        with open(out, "w") as f:
            k = 0
            for ln in lines:
                if ln:
                    k += 1
                    f.write(('{"ref":0,' + ln[1:] if '"sig":' in ln[:120] else ln) + "\n")
        v, _ = judge.judge_shards([{"trace": out, "events": k}], log=log)
        hit = [x for x in v if prop in x["props"]]
        if hit:
            print(f"VIOLATION property={prop} replay={path}")
            print(f"  reproduced: {len(hit)} events of the re-recorded trace violate {prop}; first: {json.dumps(hit[0]['ev'])[:300]}")
            return 1
        if r.get("why") == "meta":
            print("note: a metamorphic (group) violation needs the other members of its group; the single case is consistent with the contract")
        print(f"not reproduced: the case now satisfies {prop} ({k} events validated)")
        return 0
    # verdict / surface / expand: rebuild the recorded item alone
    os.makedirs(os.path.join(root, "src"))
    os.makedirs(os.path.join(root, ".cargo"))
    open(os.path.join(root, "Cargo.toml"), "w").write(
        "[package]\nname = \"replay\"\nversion = \"0.0.0\"\nedition = \"2021\"\n[dependencies]\nenum-tools = { path = \"%s\" }\n[workspace]\n" % REPO)
    shutil.copy(os.path.join(REPO, "Cargo.lock"), os.path.join(root, "Cargo.lock"))
    open(os.path.join(root, ".cargo", "config.toml"), "w").write("[net]\noffline = true\n")
    open(os.path.join(root, "src", "lib.rs"), "w").write("#![allow(warnings)]\nuse ::enum_tools::EnumTools;\n" + r["rust"] + "\n")
    # (a verdict recorded with an optimised derive is reproduced the same way: --release builds the proc-macro without overflow checks;
    #  one recorded in a non-primary package: the item is moved into a dependency of the crate that is built)
    if r.get("profile") == "dependency":
        os.makedirs(os.path.join(root, "dep"))
        os.makedirs(os.path.join(root, "user", "src"))
        shutil.move(os.path.join(root, "src"), os.path.join(root, "dep", "src"))
        open(os.path.join(root, "dep", "Cargo.toml"), "w").write(
            "[package]\nname = \"dep\"\nversion = \"0.0.0\"\nedition = \"2021\"\n[dependencies]\nenum-tools = { path = \"%s\" }\n" % REPO)
        open(os.path.join(root, "user", "Cargo.toml"), "w").write(
            "[package]\nname = \"user\"\nversion = \"0.0.0\"\nedition = \"2021\"\n[dependencies]\ndep = { path = \"../dep\" }\n")
        open(os.path.join(root, "user", "src", "lib.rs"), "w").write("\n")
        open(os.path.join(root, "Cargo.toml"), "w").write("[workspace]\nresolver = \"2\"\nmembers = [\"user\"]\nexclude = [\"dep\"]\n")
        rc, msgs, err = run_rt.cargo_json(root, ["-p", "user", "--lib"])
    else:
        rc, msgs, err = run_rt.cargo_json(root, ["--lib"] + (["--release"] if r.get("profile") == "release" else []))
    accepted = rc == 0
    if eng == "verdict":
        still = (r["why"] == "rejected" and not accepted) or (r["why"] == "accepted" and accepted)
        if still:
            print(f"VIOLATION property={prop} replay={path}")
            print(f"  reproduced: the item is still {r['why']}")
            return 1
        print("not reproduced: the verdict changed")
        return 0
    print(f"the recorded item {'builds' if accepted else 'does not build'}; re-run `/verif/check {prop}` for the full comparison ({eng} engine)")
    return 0 if accepted else 1
