"""Abstract verdict case (spec/Verdict.tla record) -> Rust text.  Pure rendering, no expectations."""
import prim
from render import rust_str

FIELD = {"unit": "", "tuple0": "()", "named0": " {}", "tuple1": "(u8)", "named1": " { x: u8 }"}
VARATTR = {"bare": "#[enum_tools]", "nv": "#[enum_tools = \"x\"]", "empty": "#[enum_tools()]",
           "rename_list": "#[enum_tools(rename(\"x\"))]", "rename_int": "#[enum_tools(rename = 1)]",
           "rename_path": "#[enum_tools(rename)]", "Rename": "#[enum_tools(Rename = \"x\")]",
           "two": "#[enum_tools(rename = \"a\", rename = \"b\")]", "unknown": "#[enum_tools(foo = \"x\")]",
           "rename_str": "#[enum_tools(rename = \"renamed\")]",
           "after_rename_unknown": "#[enum_tools(rename = \"renamed\")] #[enum_tools(alias = \"x\")]",
           "after_rename_bare": "#[enum_tools(rename = \"renamed\")] #[enum_tools]",
           "after_rename_int": "#[enum_tools(rename = \"renamed\")] #[enum_tools(rename = 5)]",
           "before_rename_unknown": "#[enum_tools(alias = \"x\")] #[enum_tools(rename = \"renamed\")]"}


def base_repr(src):
    for r in src["reprs"]:
        if r in prim.REPRS:
            return r
    return None


def reprof(case):
    """the primitive type used for literals: the repr of the case (recorded by the generator in lim)"""
    return case["_repr"]


def lit_text(real, r, sp):
    neg = real < 0
    mag = -real if neg else real
    sgn = "-" if neg else ""
    if sp == "hex":
        return f"{sgn}0x{mag:x}"
    if sp == "HEX":
        return f"{sgn}0X{mag:X}".replace("0X", "0x")
    if sp == "oct":
        return f"{sgn}0o{mag:o}"
    if sp == "bin":
        return f"{sgn}0b{mag:b}"
    if sp == "sep":
        s = str(mag)
        return sgn + "_".join([s[max(0, i - 3):i] for i in range(len(s), 0, -3)][::-1])
    if sp == "suffix":
        return f"{sgn}{mag}{r}"
    if sp == "sepsuffix":
        return f"{sgn}{mag}_{r}"
    return f"{sgn}{mag}"


def param_text(p):
    k, vk, v = p["k"], p["vk"], p["v"]
    return {"none": k, "str": f"{k} = {rust_str(v)}", "int": f"{k} = {v or 1}", "bool": f"{k} = {v or 'true'}",
            "list": f"{k}({rust_str(v)})", "path2": f"a::{k} = {rust_str(v)}"}[vk]


def entry_text(e):
    f = e["f"]
    return {"path": f, "list": f"{f}({', '.join(param_text(p) for p in e['params'])})", "nv": f"{f} = \"x\"",
            "lit": "\"x\"", "path2": f"a::{f}"}[e["form"]]


def cfg_attr_lines(cfg):
    return [f"#[enum_tools({', '.join(entry_text(e) for e in a)})]" for a in cfg["attrs"]]


def render(case, r, derive=True):
    """r: primitive type for literals.  returns lines of the case module body"""
    src, cfg = case["src"], case["cfg"]
    p = prim.Proj(r)
    pre, body = [], []
    head = []
    if derive:
        head.append("#[derive(Clone, Copy, EnumTools)]")
        head += cfg_attr_lines(cfg)
    else:
        head.append("#[derive(Clone, Copy)]")
    for rp in src["reprs"]:
        head.append("#[repr()]" if rp == "-" else f"#[repr({rp})]")
    item = src["item"]
    if item == "struct_unit":
        return head + ["pub struct S;"]
    if item == "struct_tuple":
        return head + ["pub struct S(u8);"]
    if item == "struct_named":
        return head + ["pub struct S { x: u8 }"]
    if item == "union":
        return head + ["pub union S { a: u8 }"]
    group = None
    if src["count"] > 0:
        body = [f"    V{i}," for i in range(src["count"])]
    else:
        for i, v in enumerate(src["variants"], 1):
            attrs = []
            if derive:
                ident_cps = [ord(c) for c in (v["id"][2:] if v["id"].startswith("r#") else v["id"])]    # r#type names `type`
                if v["name"] != ident_cps:
                    attrs.append(f"#[enum_tools(rename = {rust_str(''.join(chr(c) for c in v['name']))})]")
                if cfg["varattr"]["at"] == i:
                    attrs.append(VARATTR[cfg["varattr"]["form"]])
            dk = v["dk"]
            expr = None
            if dk == "lit":
                expr = lit_text(p.to_real(v["val"]), r, v["sp"])
            elif dk != "implicit":
                x = p.to_real(v["val"])
                expr = {"paren": f"({x})", "negparen": f"-(-{x})", "dblneg": f"- -{x}", "not": "!1",
                        "const": f"K{i}", "assoc": f"Konst::K{i}", "add": f"{x - 1} + 1", "shl": f"{x} << 0",
                        "cast": f"{x} as {r}", "block": f"{{ {x} }}", "byte": "b'a'", "charcast": f"'a' as {r}",
                        "typemax": f"{r}::MAX", "constfn": f"f{i}()", "ifelse": f"if true {{ {x} }} else {{ 0 }}",
                        "macro": f"lit{i}!()", "float": "1.0", "group": "$e"}[dk]
                if dk == "const":
                    pre.append(f"const K{i}: {r} = {x};")
                if dk == "assoc":
                    pre.append(f"pub struct Konst; impl Konst {{ pub const K{i}: {r} = {x}; }}")
                if dk == "constfn":
                    pre.append(f"const fn f{i}() -> {r} {{ {x} }}")
                if dk == "macro":
                    pre.append(f"macro_rules! lit{i} {{ () => {{ {x} }} }}")
                if dk == "group":
                    group = f"{x - 1} + 1"
            line = "    " + " ".join(attrs) + (" " if attrs else "") + v["id"] + FIELD[v["field"]]
            if expr is not None:
                line += f" = {expr}"
            body.append(line + ",")
    lines = pre
    enum = head + ["pub enum E {"] + body + ["}"]
    if group is not None:
        # the non-literal reaches the derive through a macro_rules `$e:expr` fragment (invisible group)
        lines = lines + ["macro_rules! mk { ($e:expr) => {"] + enum + ["} }", f"mk!({group});"]
    else:
        lines = lines + enum
    return lines
