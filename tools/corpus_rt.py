"""Assembly of the run-time conformance corpus: TLC stimuli + seeded decorations -> cases, scripts,
corpus crate.  No expected values are computed here."""
import os, json, random, hashlib, itertools
import prim, render, stimuli
from common import REPO

K_ALL = render.FEATURES

IDENT_POOL = ["Alpha", "Beta", "Gamma", "Delta", "Eps", "Zeta", "Eta", "Theta", "Iota", "Kappa", "Lambda", "Mu",
              "Nu", "Xi", "Omi", "Pi", "Rho", "Sigma", "Tau", "Ups", "Phi", "Chi", "Psi", "Omega", "a1", "B2", "c_3",
              "D", "e", "Zz", "None_", "Ok_", "Some_", "X", "y"]
RENAME_POOL = ["a", "b", "ab", "A", "Ab", "aB", "x y", " lead", "trail ", "", "\"", "\\", "{}", "{0}", "{{", "ß→", "日本",
               "a\0", "\n", "'", "%s", "Alpha", "alpha", "ALPHA", "é", "é", "0", "-1", "::", "#"]


# attributes of other tools on variants / on the enum (C11: "arbitrary foreign attributes and doc comments"): path-only, name = value,
# lists with one / several / nested / non-meta arguments, tool attributes, doc comments of every form
VARIANT_FOREIGN_ATTRS = ["#[allow(dead_code)]", "/// doc comment", "#[doc = \"x\"]", "#[cfg_attr(all(), allow(unused))]", "#[deprecated]",
                         "#[allow(dead_code, unused)]", "#[deprecated(since = \"1.0.0\", note = \"use another one\")]",
                         "#[doc(alias = \"a\", alias = \"b\")]", "#[cfg_attr(all(), allow(dead_code), doc = \"two\")]", "#[cfg(all())]",
                         "/** block doc */", "#[doc = r\"raw\"]", "#[allow(clippy::all, unused)]", "#[rustfmt::skip]", "#[cfg(not(any()))]",
                         "#[allow()]", "#[doc(alias(\"p\", \"q\"))]", "#[doc(hidden)]", "#[non_exhaustive]", "#[doc(hidden)] #[deprecated]",
                         "#[cfg_attr(any(), enum_tools(rename = \"never\"))]"]
ENUM_FOREIGN_ATTRS = ["#[allow(dead_code)]", "/// An enum.", "#[doc(hidden)]", "#[cfg_attr(all(), allow(unused))]", "#[allow(dead_code, unused)]",
                      "#[deprecated(since = \"1.0.0\", note = \"n\")]", "#[doc(alias = \"a\", alias = \"b\")]", "#[must_use = \"m\"]", "#[non_exhaustive]",
                      "#[rustfmt::skip]", "/** block doc */", "#[cfg_attr(all(), allow(dead_code), doc = \"two\")]", "#[allow(clippy::all, unused)]"]


def h(s, n=8):
    return hashlib.sha256(s.encode()).hexdigest()[:n]


# ------------------------------------------------------------------------------------------------
# configurations

def cfg_full(as_str, from_str, from_str_t, iter_mode, with_range=True, names=True, extra=None, only=None):
    feats = []
    for f in K_ALL:
        if only is not None and f not in only:
            continue
        p = {}
        if f == "as_str" and as_str:
            p["mode"] = as_str
        if f == "from_str" and from_str:
            p["mode"] = from_str
        if f == "FromStr" and from_str_t:
            p["mode"] = from_str_t
        if f == "iter" and iter_mode:
            p["mode"] = iter_mode
        if f == "range" and not with_range:
            continue
        if f == "names" and not names:
            continue
        if extra and f in extra:
            p.update(extra[f])
        feats.append((f, p))
    return {"feats": feats, "split": "one"}


def kappa_list(gapless):
    """the named configurations every item is exercised in (label, cfg)"""
    ks = [
        ("match_nab", cfg_full("match", "match", "match", "next_and_back")),
        ("table_table", cfg_full("table", "table", "table", "table")),
        ("auto", cfg_full(None, None, None, None)),
        ("inline", cfg_full(None, "table", "match", "table_inline", with_range=False)),
        ("mixed1", cfg_full("table", "match", "table", "next_and_back")),
        ("mixed2", cfg_full("match", "table", "match", "table")),
        ("auto_norange", cfg_full(None, None, None, None, with_range=False, names=False)),
    ]
    if gapless:
        ks.append(("range", cfg_full("table", "auto", "auto", "range")))
    return ks


def sparse_cfg(rng, gapless):
    """a random sparse feature subset with random modes (auto resolution depends on co-enabled features)"""
    fs = [f for f in K_ALL if rng.random() < 0.4]
    if "range" in fs and "iter" not in fs:
        fs.append("iter")
    if not fs:
        fs = [rng.choice(K_ALL[:-1])]
    feats = []
    for f in K_ALL:
        if f not in fs:
            continue
        p = {}
        if f in ("as_str", "from_str", "FromStr") and rng.random() < 0.6:
            p["mode"] = rng.choice(["auto", "match", "table"])
        if f == "iter" and rng.random() < 0.7:
            modes = ["auto", "next_and_back", "table"] + ([] if "range" in fs else ["table_inline"]) + (["range"] if gapless else [])
            p["mode"] = rng.choice(modes)
        feats.append((f, p))
    # how the features are distributed over attributes and in which order they are written must not matter (C10)
    sp = rng.choice(["one", "each", "rev", "onerev", "halves"])
    if sp in ("rev", "onerev"):
        feats = feats[::-1]
        sp = "each" if sp == "rev" else "one"
    elif sp == "halves":
        n = len(feats)
        sp = [list(range(n // 2, n)), list(range(0, n // 2))] if n >= 2 else "one"
    return {"feats": feats, "split": sp}


# ------------------------------------------------------------------------------------------------
# decorations

def spell(real, r, style, prev):
    """literal text for a discriminant or None for implicit"""
    if style == "implicit" and ((prev is None and real == 0) or (prev is not None and real == prev + 1)):
        return None
    neg = real < 0
    mag = -real if neg else real
    sgn = "-" if neg else ""
    if style == "suffix":
        return f"{sgn}{mag}{r}"
    if style in ("hex", "oct", "bin") and mag <= prim.dmax(r):
        body = {"hex": f"0x{mag:x}", "oct": f"0o{mag:o}", "bin": f"0b{mag:b}"}[style]
        return sgn + body
    if style == "HEX" and mag <= prim.dmax(r):
        return f"{sgn}0x{mag:X}"
    if style == "sep":
        s = str(mag)
        s = "_".join([s[max(0, i - 3):i] for i in range(len(s), 0, -3)][::-1])
        return sgn + s
    if style == "sepsuffix":
        return f"{sgn}{mag}_{r}"
    return f"{sgn}{mag}"


SPELL_STYLES = ["dec", "implicit", "suffix", "hex", "oct", "bin", "HEX", "sep", "sepsuffix"]


def decorate(reals, r, rng, naming, order, spelling):
    """reals: set of real discriminants -> list of variant dicts in declaration order"""
    vals = sorted(reals)
    if order == "asc":
        pass
    elif order == "desc":
        vals = vals[::-1]
    elif order == "shuffle":
        rng.shuffle(vals)
    elif isinstance(order, (list, tuple)):
        vals = [sorted(reals)[i] for i in order]
    n = len(vals)
    if n <= len(IDENT_POOL):
        idents = rng.sample(IDENT_POOL, n)
    else:
        idents = [f"V{i}" for i in range(n)]
        rng.shuffle(idents)
    vs = []
    prev = None
    for i, x in enumerate(vals):
        st = spelling if spelling != "mixed" else rng.choice(SPELL_STYLES)
        lit = spell(x, r, st, prev)
        vs.append({"ident": idents[i], "real": x, "lit": lit, "rename": None})
        prev = x
    if naming == "renames":
        pool = rng.sample(RENAME_POOL, min(n, len(RENAME_POOL)))
        for i, v in enumerate(vs):
            if rng.random() < 0.7 and i < len(pool):
                v["rename"] = pool[i]
    elif naming == "dups" and n >= 2:
        pool = rng.sample(RENAME_POOL, min(n, len(RENAME_POOL)))
        for i, v in enumerate(vs):
            if rng.random() < 0.6 and i < len(pool):
                v["rename"] = pool[i]
        a, b = rng.sample(range(n), 2)
        shared = rng.choice(RENAME_POOL)
        vs[a]["rename"] = shared
        vs[b]["rename"] = shared
        if n >= 3:   # a rename equal to another variant's identifier
            c = rng.choice([i for i in range(n) if i not in (a, b)])
            vs[c]["rename"] = vs[a]["ident"]
    return vs


def name_of(v):
    """the variant's name: the rename string, else its identifier (a raw identifier r#type names `type`, as in std's derive(Debug))"""
    return v["rename"] if v["rename"] is not None else (v["ident"][2:] if v["ident"].startswith("r#") else v["ident"])


def string_probes(vs, rng, cap=48):
    names = [name_of(v) for v in vs]
    probes = []
    for s in names:
        probes.append(s)
        if s:
            probes += [s[1:], s[:-1], s + s[-1], s[0].swapcase() + s[1:], s[:-1] + ("x" if s[-1] != "x" else "y")]
        probes += [" " + s, s + " ", s + "\0", s.lower(), s.upper()]
    probes += [v["ident"] for v in vs if v["rename"] is not None]
    probes += ["", "Zzz", "E", "None", "Some", "x" * 63, "y" * 64, "z" * 65, "long " * 40, "é" * 32]
    seen, out = set(), []
    for p in probes:
        if p not in seen:
            seen.add(p)
            out.append(p)
    musts = [p for p in out if p in names or p == "" or len(p) >= 63]
    rest = [p for p in out if p not in musts]
    if len(musts) + len(rest) > cap:
        rng.shuffle(rest)
        rest = rest[:max(0, cap - len(musts))]
        if len(musts) > cap:
            musts = rng.sample(musts, cap)
    return musts + rest


# ------------------------------------------------------------------------------------------------
# scripts

NAME_CONSUMERS = [("min", 0), ("max", 0)]        # only the names iterator has ordered items
CONSUMERS = [("fold", 0), ("rfold", 0), ("last", 0), ("count", 0), ("collect", 0), ("rev_collect", 0),
             ("for_each", 0), ("step_by", 2), ("skip", 1), ("take", 2), ("rev_skip", 1), ("step_by", 1), ("skip", 0),
             # adaptors that ordinary code rarely combines with these iterators; lengths seen through adaptors
             ("rev_nth", 1), ("peek_collect", 0), ("max_by_key0", 0), ("min_by_key0", 0), ("partition", 0), ("rev_len", 0),
             ("skip_len", 1), ("take_len", 2), ("step_by_len", 2), ("chain_hint", 0), ("zip_hint", 0), ("rev_nth", 0)]


def op_line(op, k):
    if op in ("nth", "nth_back", "find", "rfind", "take_count", "rev_take_count", "take_last", "position", "rposition", "dyn_nth", "dyn_nth_back"):
        return f"op {op} {'max' if k >= stimuli.BIG else k}"
    return f"op {op}"


def session(lines, key, new, path, consumer, observe=True):
    """append one iterator session: new, ops (each followed by len / size_hint when observe), consumer"""
    i = 0
    lines.append(f"s {key}.{i} new {new}")
    for op, k in path:
        i += 1
        lines.append(f"s {key}.{i} {op_line(op, k)}")
    if observe:
        i += 1
        lines.append(f"s {key}.{i} op len")
        i += 1
        lines.append(f"s {key}.{i} op size_hint")
    if consumer:
        i += 1
        lines.append(f"s {key}.{i} end {consumer[0]} {consumer[1]}")


def multi_session(lines, key, news, path, calls, consumers):
    """several iterators alive at once (one per slot), operated alternately, with pure calls in between:
    news[slot] = constructor, path = [(slot, op, k)], calls = script lines of pure calls (they keep their own sig)"""
    i = 0
    for sl, new in enumerate(news):
        lines.append(f"s {key}.{i} new {new} @{sl}")
        i += 1
    for j, (sl, op, k) in enumerate(path):
        lines.append(f"s {key}.{i} {op_line(op, k)} @{sl}")
        i += 1
        if calls and j % 2 == 0:
            lines.append(calls[(j // 2 + len(path)) % len(calls)])
    for sl in range(len(news)):
        lines.append(f"s {key}.{i} op len @{sl}")
        i += 1
    for sl, cons in enumerate(consumers[:len(news)]):
        lines.append(f"s {key}.{i} end {cons[0]} {cons[1]} @{sl}")
        i += 1


SIGFAM = {"into": "into", "into_t": "into", "as_str": "str", "display": "str", "debug": "str", "into_str": "str",
          "next": "next", "next_back": "next_back"}


def truncation_probes(reals, r, p, cap=6):
    """try_from arguments d +/- 2^k (k = 8, 16, 32, 64 below the repr width): values that a truncating cast or a
    comparison in a narrower type would confuse with the discriminant d"""
    L, seen = [], set()
    picks = sorted(set([reals[0], reals[-1]] + reals[:cap]))
    for d in picks:
        for k in (8, 16, 32, 64):
            if k >= prim.bits_of(r):
                continue
            for x in (d + (1 << k), d - (1 << k)):
                if prim.tmin(r) <= x <= prim.tmax(r) and x not in reals and x not in seen:
                    seen.add(x)
                    m = p.to_model(x)
                    for f in ("try_from", "try_from_t"):
                        L.append(f"s tf:t{k}:{p.to_model(d)}:{'+' if x > d else '-'} call {f} {p.bits(x)}")
    return L


def make_script(vs, r, probes_model, rng, level="std", str_cap=48, pairs_cap=36, calls=True, pow2=False):
    """vs: variants (with real); probes_model: try_from arguments in model coordinates.
    level: "full" = every covering path of the iterator graph, "std" = a seeded sample,
           "calls" = pure calls only"""
    p = prim.Proj(r, pow2)
    bits = lambda x: p.bits(x)
    vs = sorted(vs, key=lambda v: v["real"])      # scripts do not depend on the declaration order
    model = {v["real"]: p.to_model(v["real"]) for v in vs}
    reals = sorted(model)
    n = len(reals)
    L = []
    # cold start: the FIRST calls an enum's items ever see in the process are a seeded choice, not always the same ones
    # (a lazily initialised table or a memo of the last lookup starts from its initial state exactly once)
    ca, cb = rng.choice(reals), rng.choice(reals)
    cold = rng.choice(["range", "range", "next", "next_back", "as_str", "from_str", "try_from", "iter", "names"])
    if cold == "range":
        session(L, f"range:{model[ca]}:{model[cb]}:cold", f"range {bits(ca)} {bits(cb)}", [("next", 0)], ("collect", 0))
    elif cold in ("iter", "names"):
        cop = rng.choice(["next_back", "nth", "nth_back"])
        session(L, f"{cold}:cold:{cop}", cold, [(cop, 1)], ("collect", 0))
    elif cold == "from_str":
        cp = " ".join(str(ord(c)) for c in name_of(vs[reals.index(ca)]))
        L.append(f"s fs:{h(name_of(vs[reals.index(ca)]))} call from_str {cp}".rstrip())
    elif cold == "try_from":
        L.append(f"s tf:{model[ca]} call try_from {bits(ca)}")
    else:
        L.append(f"s {SIGFAM[cold]}:{model[ca]} call {cold} {bits(ca)}")
    for m in (probes_model if calls else []):
        try:
            x = p.to_real(m)
        except ValueError:
            # far representative: take the real value in the middle of that gap
            x = next(fx for fx in p.far_reals() if p.to_model(fx) == m)
        for f in ("try_from", "try_from_t"):
            L.append(f"s tf:{m} call {f} {bits(x)}")          # fn and trait form share the sig: they must agree
    if calls:
        L += truncation_probes(reals, r, p)
    for x in (reals if calls else []):
        for f in ("into", "into_t", "as_str", "display", "debug", "into_str", "next", "next_back"):
            L.append(f"s {SIGFAM[f]}:{model[x]} call {f} {bits(x)}")
    if calls:
        L.append("s min call min")
        L.append("s max call max")
        L.append("s zip call zip")
    for s in (string_probes(vs, rng, str_cap) if calls else []):
        cp = " ".join(str(ord(c)) for c in s)
        for f in ("from_str", "from_str_t"):
            L.append(f"s fs:{h(s)} call {f} {cp}".rstrip() if cp else f"s fs:{h(s)} call {f}")
    if level == "calls":
        return L
    # iterator sessions
    if n <= 6:
        paths = stimuli.covering_paths(n)
        if level != "full":
            k = 5 if level == "std" else 3
            paths = rng.sample(paths, min(k, len(paths)))
            # always: drain from the front, from the back, alternating until None twice
            paths += [[("next", 0)] * (n + 2), [("next_back", 0)] * (n + 2),
                      [("next", 0), ("next_back", 0)] * ((n + 3) // 2)]
        for src in ("iter", "names"):
            for j, path in enumerate(paths):
                cons = CONSUMERS[(j + (0 if src == "iter" else 5)) % len(CONSUMERS)]
                key = f"{src}:{h(json.dumps(path) + str(cons))}"
                session(L, key, src, path, cons)
        # fresh iterator into every consumer
        for src in ("iter", "names"):
            cs = CONSUMERS if level == "full" else rng.sample(CONSUMERS, 4)
            for cons in cs:
                session(L, f"{src}:c{cons[0]}{cons[1]}", src, [], cons, observe=(level == "full"))
        pairs = [(a, b) for a in reals for b in reals]
        if len(pairs) > pairs_cap and level != "full":
            musts = [(a, a) for a in reals] + [(reals[0], reals[-1]), (reals[-1], reals[0])]
            rest = [q for q in pairs if q not in musts]
            rng.shuffle(rest)
            pairs = musts + rest[:max(0, pairs_cap - len(musts))]
        for pi, (a, b) in enumerate(pairs):
            ia, ib = reals.index(a), reals.index(b)
            lo, hi = (ia + 1, ib + 1) if ia <= ib else (1, 0)
            new = f"range {bits(a)} {bits(b)}"
            base = f"range:{model[a]}:{model[b]}"
            firsts = stimuli.first_ops(n, (lo, hi))
            if level != "full":
                firsts = rng.sample(firsts, min(1, len(firsts)))
            for j, (op, k) in enumerate(firsts):
                cons = CONSUMERS[(j + ia + ib) % len(CONSUMERS)]
                session(L, f"{base}:{op}{k}", new, [(op, k)], cons)
            m = (hi - lo + 1) if hi >= lo else 0
            which = (0, 1, 2) if level == "full" else ((pi + n) % 3,)
            if 0 in which:
                session(L, f"{base}:fw", new, [("next", 0)] * (m + 1), ("count", 0), observe=False)
            if 1 in which:
                session(L, f"{base}:bw", new, [("next_back", 0)] * (m + 1), ("last", 0), observe=False)
            if 2 in which:
                session(L, f"{base}:c", new, [], CONSUMERS[(ia * 3 + ib) % len(CONSUMERS)])
    else:
        # large enums: seeded random histories
        def rand_path(length, m):
            path = []
            for _ in range(length):
                t = rng.random()
                if t < 0.35:
                    path.append(("next", 0))
                elif t < 0.7:
                    path.append(("next_back", 0))
                else:
                    k = rng.choice([0, 1, 2, rng.randint(0, max(1, m // 4)), m - 1, m, stimuli.BIG])
                    path.append((rng.choice(["nth", "nth_back"]), max(0, k)))
            return path
        # huge enums: consuming operations whose result stays small
        big = n > 5000
        cons_for = (lambda j: [("count", 0), ("last", 0), ("skip", n - 3), ("rev_skip", n - 2), ("step_by", n // 3 + 1), ("take", 3)][j % 6]) if big \
            else (lambda j: CONSUMERS[j % len(CONSUMERS)])
        for src in ("iter", "names"):
            for j in range(6 if level != "full" else 20):
                path = rand_path(rng.randint(5, 60), n)
                session(L, f"{src}:r{h(json.dumps(path) + str(cons_for(j)))}", src, path, cons_for(j))
        for j in range(12 if level != "full" else 60):
            a, b = rng.choice(reals), rng.choice(reals)
            if j % 4 == 0:
                a, b = max(a, b), min(a, b)
            if j == 1:
                b = a
            m = abs(reals.index(b) - reals.index(a)) + 1
            rp = rand_path(rng.randint(3, 30), m)
            session(L, f"range:{model[a]}:{model[b]}:r{h(json.dumps(rp) + str(j))}", f"range {bits(a)} {bits(b)}",
                    rp, cons_for(j) if big and m > 5000 else (("count", 0) if big else CONSUMERS[j % len(CONSUMERS)]))
    if n > 6 and runs_of(reals) > 8:
        # enums with many runs: a range endpoint at the LAST and at the SECOND value of every run (a blocked or binary search
        # over the run table that looks at the wrong bound of a run goes wrong for exactly one residue of the run number)
        srt = sorted(reals)
        ends = [x for i, x in enumerate(srt) if i + 1 == len(srt) or srt[i + 1] != x + 1]
        seconds = [srt[i + 1] for i, x in enumerate(srt[:-1]) if (i == 0 or srt[i - 1] != x - 1) and srt[i + 1] == x + 1]
        for j, x in enumerate((ends + seconds)[:160]):
            session(L, f"range:{model[srt[0]]}:{model[x]}:runA", f"range {bits(srt[0])} {bits(x)}", [], ("count", 0), observe=False)
            session(L, f"range:{model[x]}:{model[srt[-1]]}:runB", f"range {bits(x)} {bits(srt[-1])}", [("next", 0)], ("count", 0), observe=False)
    if n > 6:
        # ranges that touch the ends of the list, whatever the random choices above were
        srt = sorted(reals)
        for j, (a, b) in enumerate(((srt[0], srt[-1]), (srt[0], srt[0]), (srt[-1], srt[-1]), (srt[1], srt[-1]), (srt[0], srt[-2]), (srt[-1], srt[0]),
                                    (srt[-2], srt[-1]), (srt[n // 2], srt[-1]))):
            m = abs(srt.index(b) - srt.index(a)) + 1
            cons = [("count", 0), ("last", 0), ("rev_collect", 0), ("collect", 0)][j % 4] if m <= 5000 else ("count", 0)
            session(L, f"range:{model[a]}:{model[b]}:e{j}", f"range {bits(a)} {bits(b)}",
                    [("next", 0), ("next_back", 0), ("nth", 1)][: j % 4], cons)
    # ---- several iterators alive at once, operated alternately, pure calls in between (iterators are values: no
    # operation on one may change another; no call may depend on the calls before it) ----
    call_lines = [x for x in L if " call " in x and " call zip" not in x]
    inter = rng.sample(call_lines, min(16, len(call_lines))) if call_lines else []
    full_new = f"range {bits(reals[0])} {bits(reals[-1])}"
    combos = [("iter", "iter"), ("iter", "names"), ("names", "names"), (full_new, "iter"), (full_new, full_new), ("names", full_new)]
    if n <= 4:
        mp = stimuli.multi_paths(n, 2)
        if level != "full" or n not in (2, 3):
            mp = rng.sample(mp, min(6 if level == "std" else 3, len(mp)))
        for j, path in enumerate(mp):
            news = combos[j % len(combos)]
            cons = [CONSUMERS[(j + t) % len(CONSUMERS)] for t in range(2)]
            multi_session(L, f"multi2:{h(json.dumps(path) + str(news) + str(cons))}", news, path, inter, cons)
        if level == "full" and n == 2:
            for j, path in enumerate(stimuli.multi_paths(2, 3)):
                news = (combos[j % len(combos)] + combos[(j // 6 + 1) % len(combos)])[:3]
                cons = [CONSUMERS[(j + t) % len(CONSUMERS)] for t in range(3)]
                multi_session(L, f"multi3:{h(json.dumps(path) + str(news) + str(cons))}", news, path, inter, cons)
    else:
        for j in range(3 if level != "full" else 12):
            ops = []
            for _ in range(rng.randint(8, 40)):
                t = rng.random()
                op = ("next", 0) if t < 0.3 else ("next_back", 0) if t < 0.6 else \
                    (rng.choice(["nth", "nth_back", "find", "rfind", "take_count", "rev_take_count", "take_last", "position", "rposition", "dyn_nth", "dyn_nth_back"]),
                     rng.choice([0, 1, 2, max(1, n // 4), n, stimuli.BIG]))
                ops.append((rng.randrange(3), op[0], op[1]))
            news = (combos[j % len(combos)] + combos[(j + 2) % len(combos)])[:3]
            big_cons = [("count", 0), ("last", 0), ("count", 0)]
            cons = big_cons if n > 64 else [CONSUMERS[(j + t) % len(CONSUMERS)] for t in range(3)]
            # (the key is content-based: members of a group draw different random histories)
            multi_session(L, f"multi3:{h(json.dumps(ops) + str(news) + str(cons))}", news, ops, inter, cons)
    # ---- concurrent threads: each thread owns an iterator (slot = thread) and makes pure calls; the threads share nothing in
    # the contract, so every thread's observations are what it would see alone (whatever the schedule) ----
    if level in ("std", "full", "light") and call_lines:
        for j in range(1 if level == "std" else 4):
            nthreads = rng.choice([2, 3, 4]) if level != "light" else 2
            prog = []
            for tid in range(nthreads):
                src = rng.choice(["iter", "names", full_new] + (["range %s %s" % (bits(rng.choice(reals)), bits(rng.choice(reals)))] if n > 1 else []))
                steps = [("new", src)]
                for _ in range(rng.randint(6, 24) if level != "light" else rng.randint(4, 10)):
                    t = rng.random()
                    if t < 0.5:
                        steps.append(("callline", rng.choice(call_lines)))
                    else:
                        op = ("next", 0) if t < 0.65 else ("next_back", 0) if t < 0.8 else \
                            (rng.choice(["nth", "nth_back", "find", "take_count"]), rng.choice([0, 1, 2, n, stimuli.BIG])) if t < 0.92 else ("len", 0)
                        steps.append(("op", op_line(*op)))
                steps.append(("end", "end %s %s" % rng.choice(CONSUMERS[:7] + [("count", 0)])))
                prog.append(steps)
            key = "par:" + h(json.dumps(prog))
            # the lines of the threads alternate in the script (the runner groups them by thread again)
            per = {tid: [] for tid in range(nthreads)}
            for tid, steps in enumerate(prog):
                for i, (kd, x) in enumerate(steps):
                    per[tid].append(f"p {tid} {x[2:]}" if kd == "callline" else f"p {tid} {key}.{tid}.{i} " + (f"new {x}" if kd == "new" else x))
            rr = []
            while any(per.values()):
                for tid in range(nthreads):
                    if per[tid]:
                        rr.append(per[tid].pop(0))
            L.append(f"s {key} par {len(rr)}")
            L += rr
    # ---- history independence of the pure items: a seeded sample of the calls above, again, in random order
    # (after the iterator sessions), and from_str on strings of equal length one after the other (the runner
    # passes every string through ONE reused buffer: same address, same length, other bytes) ----
    if call_lines:
        again = [rng.choice(call_lines) for _ in range(min(40, 2 * len(call_lines)))]
        L += again
    if calls:
        nm = [name_of(v) for v in vs]
        for s0 in rng.sample(nm, min(8, len(nm))):
            if not s0:
                continue
            same_len = [t for t in nm if len(t.encode()) == len(s0.encode()) and t != s0]
            twin = s0[:-1] + ("x" if s0[-1] != "x" else "y")
            seq = [s0, twin, s0, "\0" * len(s0.encode())] + ([same_len[0], s0] if same_len else []) + [twin]
            for q in seq:
                cp = " ".join(str(ord(c)) for c in q)
                for f in ("from_str", "from_str_t"):
                    L.append(f"s fs:{h(q)} call {f} {cp}")
    if n <= 64:
        # the names iterator has ordered items (&str): min / max are by name, not by position
        for cons in NAME_CONSUMERS:
            session(L, f"names:c{cons[0]}", "names", [], cons, observe=False)
        session(L, "names:mm1", "names", [("next", 0)], ("max", 0), observe=False)
        session(L, "names:mm2", "names", [("next_back", 0)], ("min", 0), observe=False)
    return L


# ------------------------------------------------------------------------------------------------
# planning

QUICK_REPRS_FIXED = ["i8", "u8", "i64", "u128"]


def runs_of(reals):
    s = sorted(reals)
    return sum(1 for i, x in enumerate(s) if i == 0 or s[i - 1] != x - 1)


class Plan:
    def __init__(self, tier, seed):
        self.tier, self.seed = tier, seed
        self.rng = random.Random(f"rt-{tier}-{seed}")
        self.groups = []      # {"id", "gprop", "cases": [case...]}
        self.next_id = 1
        self.stim_stats = {"states": 0, "transitions": 0}

    def new_case(self, r, vs, cfg, script, label, ctx="plain"):
        c = {"id": self.next_id, "repr": r, "variants": vs, "cfg": cfg, "script": script, "label": label, "ctx": ctx}
        self.next_id += 1
        return c

    def add_group(self, gprop, cases, kind):
        if cases:
            self.groups.append({"id": f"g{len(self.groups)}", "gprop": gprop, "cases": cases, "kind": kind})

    # -- A: discriminant shapes x configurations (C01..C08, pairwise C09)
    def shapes(self, reprs, per_repr_small, per_repr_large, kappas_per_shape=2):
        rng = self.rng
        for r in reprs:
            cs = stimuli.corpus_sets(r)
            self.stim_stats["states"] += cs["stats"]["distinct"]
            self.stim_stats["transitions"] += cs["stats"]["states"]
            p = prim.Proj(r)
            small = [c for c in cs["cases"] if len(c["s"]) <= 3]
            large = [c for c in cs["cases"] if len(c["s"]) > 3]
            if per_repr_small is not None and len(small) > per_repr_small:
                small = rng.sample(small, per_repr_small)
            if per_repr_large is not None and len(large) > per_repr_large:
                large = rng.sample(large, per_repr_large)
            for j, c in enumerate(small + large):
                reals = [p.to_real(m) for m in c["s"]]
                gapless = c["runs"] == 1
                naming = rng.choice(["ident", "renames", "renames", "dups"])
                order = rng.choice(["asc", "desc", "shuffle", "shuffle"])
                spelling = rng.choice(["dec", "dec", "implicit", "mixed"])
                vs = decorate(reals, r, rng, naming, order, spelling)
                script = make_script(vs, r, c["probes"], rng, level="std" if len(reals) <= 4 else "light")
                ks = kappa_list(gapless)
                pick = [ks[(j + i * 3) % len(ks)] for i in range(kappas_per_shape)]
                if rng.random() < 0.3:
                    pick.append(("sparse", sparse_cfg(rng, gapless)))
                cases = [self.new_case(r, vs, cfg, script, f"shape:{lab}") for lab, cfg in pick]
                self.add_group("C09", cases, "shapes")

    # -- G: every covering path of the iterator graph, per iterator mode and shape class
    def full_paths(self, ns=(1, 2, 3, 4, 5, 6)):
        rng = self.rng
        for n in ns:
            g = stimuli.iter_graph(n)
            self.stim_stats["states"] += g["stats"]["distinct"]
            self.stim_stats["transitions"] += g["stats"]["states"]
            for gapless in (True, False):
                if not gapless and n == 1:
                    continue
                r = rng.choice(["i8", "u8", "i16", "i64", "u32"])
                base = rng.choice([0, 3, 100]) if not prim.signed(r) else rng.choice([-3, 0, -100, 50])
                reals = [base + i for i in range(n)] if gapless else [base + 2 * i + (i // 2) for i in range(n)]
                vs = decorate(reals, r, rng, "renames", "shuffle", "dec")
                p = prim.Proj(r)
                probes = sorted({p.to_model(x + d) for x in reals for d in (-1, 0, 1) if prim.tmin(r) <= x + d <= prim.tmax(r)})
                script = make_script(vs, r, probes, rng, level="full")
                cases = [self.new_case(r, vs, cfg, script, f"full:{lab}") for lab, cfg in kappa_list(gapless)]
                self.add_group("C09", cases, "full_paths")

    # -- mini corpus: every unsafe site / iterator representation once, small shapes
    def mini(self, decls=None, level="light", str_cap=12, pairs_cap=12, kappas=None):
        rng = self.rng
        decls = decls or [("i8", [-128, -127, -3, -1, 0, 127]), ("u8", [0, 1, 2, 3]), ("i16", [-2, -1, 0, 1]),
                          ("u64", [5, 7, 8, 9223372036854775807]), ("i8", [7])]
        for r, reals in decls:
            gapless = runs_of(reals) == 1
            vs = decorate(reals, r, rng, "renames", "shuffle", "dec")
            p = prim.Proj(r)
            probes = sorted({p.to_model(x + d) for x in reals for d in (-1, 0, 1) if prim.tmin(r) <= x + d <= prim.tmax(r)}
                            | {p.model_tmin(), p.model_tmax()})
            script = make_script(vs, r, probes, rng, level=level, str_cap=str_cap, pairs_cap=pairs_cap)
            cases = [self.new_case(r, vs, cfg, script, f"mini:{lab}") for lab, cfg in kappa_list(gapless)
                     if kappas is None or lab in kappas]
            self.add_group("C09", cases, "mini")

    # -- B: configuration matrix on representative declarations (C09)
    def config_matrix(self, n_sparse):
        rng = self.rng
        decls = [("i8", [-10, -5, -4, 3]), ("u8", [0, 1, 2, 3]), ("i8", [0, 1]), ("u16", [1, 2, 3, 4, 5, 6, 7, 8, 9]),
                 ("i64", [-2, -1, 0, 1, 2, 7]), ("u64", [5, 7, 9]), ("i16", [-32768, -32767, 32767]),
                 ("u8", [250, 251, 252, 253, 254, 255]), ("i128", [-1, 1]), ("usize", [0, 2]), ("i32", [-7]),
                 ("u32", [10, 11, 12, 20, 21, 30])]
        for r, reals in decls:
            gapless = runs_of(reals) == 1
            vs = decorate(reals, r, rng, "renames", "shuffle", "dec")
            p = prim.Proj(r)
            probes = sorted({p.to_model(x + d) for x in reals for d in (-1, 0, 1) if prim.tmin(r) <= x + d <= prim.tmax(r)}
                            | {p.model_tmin(), p.model_tmax()})
            script = make_script(vs, r, probes, rng, level="std")
            cfgs = list(kappa_list(gapless))
            # every mode combination of the three string features on top of a fixed rest
            for a, f, t in itertools.product(["auto", "match", "table"], repeat=3):
                if rng.random() < (1.0 if self.tier == "thorough" else 0.25):
                    cfgs.append((f"str:{a}/{f}/{t}", cfg_full(a, f, t, rng.choice(["auto", "next_and_back", "table"]))))
            for i in range(n_sparse):
                cfgs.append((f"sparse{i}", sparse_cfg(rng, gapless)))
            cases = [self.new_case(r, vs, cfg, script, f"cfg:{lab}") for lab, cfg in cfgs]
            self.add_group("C09", cases, "config_matrix")

    # -- B3: every feature ALONE (and every explicit mode of it): the helper items it needs must come with it, and its
    #        stand-alone code paths must behave like the ones taken next to other features (C09, C10)
    def solo_cfgs(self, which=None):
        rng = random.Random("solo")
        decls = [("u8", [0, 1, 2, 3], "renames"), ("i8", [-10, -5, -4, 3], "renames"), ("i8", list(range(-100, 40)), "ident"),
                 ("i16", [3 * j for j in range(10)], "renames"), ("i8", [-100, -50, 0, 50, 100], "ident"), ("i32", [-1, 0, 1000, (1 << 31) - 1], "ident"),
                 ("usize", [7, (1 << 32) + 7], "ident"), ("u64", list(range(9, 18)), "ident"), ("u8", list(range(0, 256)), "ident"),
                 ("i64", [-(1 << 63), -(1 << 63) + 1, 0, (1 << 63) - 2, (1 << 63) - 1], "renames")]
        for di, (r, reals, naming) in enumerate(decls):
            gapless = runs_of(reals) == 1
            vs = decorate(reals, r, rng, naming, "shuffle", "dec")
            if which is not None and di not in which:
                continue
            p = prim.Proj(r, True)
            pr = {p.model_tmin(), p.model_tmax()}
            for x in (reals if len(reals) <= 12 else reals[:3] + reals[-3:] + reals[126:130]):
                for d in (-1, 0, 1):
                    if prim.tmin(r) <= x + d <= prim.tmax(r):
                        pr.add(p.to_model(x + d))
            if len(reals) <= 12:
                script = make_script(vs, r, sorted(pr), rng, level="light", str_cap=12, pairs_cap=12, pow2=True)
            else:
                bysort = sorted(vs, key=lambda v: v["real"])
                sub = list({v["ident"]: v for v in bysort[:3] + bysort[-3:] + bysort[126:131]}.values())
                script = make_script_large(vs, sub, r, sorted(pr), rng)
            cfgs = [("all", cfg_full(None, None, None, None))]
            for f in K_ALL:
                modes = {"as_str": ["auto", "match", "table"], "from_str": ["auto", "match", "table"], "FromStr": ["auto", "match", "table"],
                         "iter": ["auto", "next_and_back", "table", "table_inline"] + (["range"] if gapless else [])}.get(f, [None])
                for m in modes:
                    if f == "iter" and m == "table_inline" and len(reals) > 64:
                        continue
                    feats = [(f, {"mode": m} if m and m != "auto" else {})]
                    cfgs.append((f"{f}:{m}", {"feats": feats if f != "range" else [("iter", {}), ("range", {})], "split": "one"}))
                    if f == "iter" and m not in ("table_inline",):
                        cfgs.append((f"{f}:{m}+range", {"feats": [("iter", {"mode": m} if m != "auto" else {}), ("range", {})], "split": "one"}))
            # pairs that steer the auto modes / share helper tables
            for a, b in (("Debug", "Display"), ("Debug", "names"), ("next", "next_back"), ("as_str", "names"), ("from_str", "FromStr"), ("IntoStr", "iter")):
                cfgs.append((f"{a}+{b}", {"feats": [(f, {}) for f in K_ALL if f in (a, b)], "split": "one"}))
            cases = []
            for lab, cfg in cfgs:
                c = self.new_case(r, vs, cfg, script, f"solo:{lab}")
                c["pow2"] = True
                cases.append(c)
            self.add_group("C09", cases, "config_matrix")
            # the stand-alone code paths in hostile scopes (C16): a scope slip may sit in a branch that only a solo
            # configuration of a particular shape takes
            if (r, len(reals)) in (("u8", 4), ("i16", 10), ("i8", 140)):
                for k, (lab, cfg) in enumerate(cfgs[1:]):
                    twins = []
                    for ctx in ("plain", "all_traits" if k % 2 else "all_types"):
                        c = self.new_case(r, vs, cfg, script, f"soloctx:{lab}:{ctx}", ctx=ctx)
                        c["pow2"] = True
                        twins.append(c)
                    self.add_group("C16", twins, "contexts")

    # -- B1b: t-wise coverage of the configuration space, enumerated by TLC from the resolution model (spec/CfgCover.tla):
    # every legal configuration of at most two user features in every combination of their modes (+ a seeded sample of
    # the triples; thorough: all triples), on one shape per class (gapless / holes; small only where the auto rule reads it)
    def pairwise(self, n_triples):
        rng = random.Random(f"pairwise:{self.seed}")
        MODE = {"nab": "next_and_back", "inline": "table_inline"}
        cov2 = stimuli.cfg_cover(2)
        self.stim_stats["states"] += cov2["stats"]["distinct"]
        self.stim_stats["transitions"] += cov2["stats"]["states"]
        recs = list(cov2["cases"])
        if n_triples:
            cov3 = stimuli.cfg_cover(3)
            self.stim_stats["states"] += cov3["stats"]["distinct"]
            self.stim_stats["transitions"] += cov3["stats"]["states"]
            tri = [c for c in cov3["cases"] if len(c["user"]) == 3]
            recs += tri if n_triples >= len(tri) else rng.sample(tri, n_triples)
        shapes = {(True, False): ("i16", [-3, -2, -1, 0, 1, 2, 3, 4]),     # gapless, negative minimum, 2^3 variants (minimum not a multiple)
                  (False, False): ("i8", [-10, -5, -4, 3, 4, 5, 6, 7, 8, 20]),             # four runs, a later negative run
                  (False, True): ("i8", [-7, -6, 2])}                                       # holes, num_values * size <= 8
        for (gapless, small), (r, reals) in shapes.items():
            mine = [c for c in recs if c["gapless"] == gapless and c["small"] == small]
            vs = decorate(reals, r, rng, "renames", "shuffle", "dec")
            p = prim.Proj(r, True)
            pr = {p.model_tmin(), p.model_tmax()} | {p.to_model(x + d) for x in reals for d in (-1, 0, 1) if prim.tmin(r) <= x + d <= prim.tmax(r)}
            script = make_script(vs, r, sorted(pr), rng, level="light", str_cap=10, pairs_cap=10, pow2=True)
            cases = [self.new_case(r, vs, cfg_full(None, None, None, None), script, "pairwise:all")]
            for c in mine:
                want = {"as_str": c["am"], "from_str": c["fm"], "FromStr": c["tm"], "iter": c["im"]}
                feats = []
                for f in K_ALL:
                    if f not in c["user"]:
                        continue
                    m = want.get(f)
                    feats.append((f, {"mode": MODE.get(m, m)} if m and m != "auto" else {}))
                lab = "+".join(f + (":" + want[f] if want.get(f, "auto") != "auto" else "") for f, _ in feats)
                # (order and grouping of the attributes rotate: one attribute, one per feature, both also reversed)
                k = len(cases) % 4
                cs = self.new_case(r, vs, {"feats": feats if k < 2 else feats[::-1], "split": "one" if k % 2 == 0 else "each"}, script, f"pairwise:{lab}")
                cs["pow2"] = True
                cases.append(cs)
            cases[0]["pow2"] = True
            self.add_group("C09", cases, "config_matrix")

    # -- B1c: MANY derive invocations in one compiler process (one corpus binary): small enums of alternating shape, repr and
    # configuration whose variant names recur with periods around 2^8 -- what the derive remembers between invocations (a
    # cache, an interner with generation stamps, a counter that wraps, a "first enum wins" static) must not show
    def many_enums(self, n):
        rng = random.Random(f"many:{self.seed}")
        cfgs = [{"feats": [("from_str", {"mode": "match"})], "split": "one"},
                {"feats": [("as_str", {}), ("from_str", {"mode": "match"}), ("FromStr", {"mode": "match"})], "split": "one"},
                {"feats": [("as_str", {"mode": "table"}), ("from_str", {"mode": "table"}), ("names", {}), ("iter", {})], "split": "each"},
                {"feats": [("try_from", {}), ("next", {}), ("iter", {}), ("range", {}), ("Display", {})], "split": "one"},
                {"feats": [("from_str", {}), ("Debug", {}), ("iter", {"mode": "table_inline"}), ("into", {})], "split": "one"},
                cfg_full(None, None, None, None)]
        shapes = [("u8", [1, 2, 3, 4]), ("i8", [-3, -2, 5, 6]), ("u16", [0, 1, 2, 3]), ("i64", [-9, 0, 1, 7]), ("i16", [-2, -1, 0, 1]),
                  ("u32", [10, 20, 21, 22]), ("i8", [0, 1, 2, 3]), ("usize", [3, 4, 5, 9])]
        cases = []
        scripts = {}
        for k in range(n):
            r, reals = shapes[(k * 5 + k // 7) % len(shapes)]
            idents = [f"N{k % 255}", f"M{k % 256}", f"P{k % 257}", f"Q{k}"]
            order = rng.sample(range(4), 4)
            vs = [{"ident": idents[i], "real": reals[i], "lit": str(reals[i]), "rename": None} for i in order]
            key = (r, tuple(reals), tuple(idents))
            p = prim.Proj(r)
            pr = sorted({p.model_tmin(), p.model_tmax()} | {p.to_model(x + d) for x in reals for d in (-1, 0, 1) if prim.tmin(r) <= x + d <= prim.tmax(r)})
            script = make_script(vs, r, pr, random.Random(f"many-script:{k % 3}"), level="light", str_cap=8, pairs_cap=6)
            cases.append(self.new_case(r, vs, cfgs[(k + k // len(cfgs)) % len(cfgs)], script, f"many:{k}"))
        # one group without a group property: a group is never split over binaries, so all of them are derived by ONE rustc
        self.add_group("", cases, "many")

    # -- B1d: every primitive repr, whatever the seed rotates in: a gapless enum and one with holes that cross zero (signed) or
    # sit away from it (unsigned), and the limits of the domain for the reprs that reach them
    def all_reprs(self):
        rng = random.Random("all-reprs")
        for r in prim.REPRS:
            sg = prim.signed(r)
            decls = [list(range(-3, 3)) if sg else list(range(5, 11)), [-5, -4, 0, 1, 7] if sg else [0, 1, 5, 6, 200]]
            if prim.dmin(r) <= -(1 << 63):
                decls.append([-(1 << 63), -(1 << 63) + 1, -1, 0])
            if prim.dmax(r) >= (1 << 63) - 1:
                decls.append([0, 1, (1 << 63) - 2, (1 << 63) - 1])
            for reals in decls:
                gapless = runs_of(reals) == 1
                vs = decorate(reals, r, rng, "ident", "shuffle", "dec")
                p = prim.Proj(r)
                pr = sorted({p.model_tmin(), p.model_tmax()} | {p.to_model(x + d) for x in reals for d in (-1, 0, 1) if prim.tmin(r) <= x + d <= prim.tmax(r)})
                script = make_script(vs, r, pr, rng, level="light", str_cap=8, pairs_cap=12)
                ks = kappa_list(gapless)
                cases = [self.new_case(r, vs, cfg, script, f"allreprs:{lab}") for lab, cfg in ks[:3]]
                self.add_group("C09", cases, "shapes")

    # -- B1e: enums with holes whose variant count times repr size passes 2^16 (a size computed in a narrow type), under
    # configurations that enable next to nothing: iter alone (auto), iter + names
    def huge_sparse_cfgs(self):
        rng = random.Random("huge")
        for r, n in (("i128", 4200), ("u64", 8300)):
            reals = list(range(-2000, -2000 + n // 2)) + list(range(n, n + n // 2 - 5)) + [3 * n + 1, 3 * n + 2, 3 * n + 3, 3 * n + 4, 3 * n + 5] if prim.signed(r) \
                else list(range(10, 10 + n // 2)) + list(range(n, n + n // 2 - 5)) + [3 * n + 1, 3 * n + 2, 3 * n + 3, 3 * n + 4, 3 * n + 5]
            vs = decorate(reals, r, rng, "ident", "asc", "dec")
            p = prim.Proj(r)
            pr = sorted({p.model_tmin(), p.model_tmax()} | {p.to_model(x + d) for x in (reals[0], reals[-1], reals[n // 2 - 1], reals[n // 2]) for d in (-1, 0, 1)})
            bysort = sorted(vs, key=lambda v: v["real"])
            sub = bysort[:3] + bysort[-3:] + bysort[n // 2 - 2:n // 2 + 2]
            script = make_script_large(vs, sub, r, pr, rng)
            cfgs = [("iter", {"feats": [("iter", {})], "split": "one"}), ("iter+names", {"feats": [("iter", {}), ("names", {})], "split": "one"}),
                    ("next+try_from", {"feats": [("next", {}), ("next_back", {}), ("try_from", {}), ("MIN", {}), ("MAX", {})], "split": "one"})]
            self.add_group("C09", [self.new_case(r, vs, cfg, script, f"huge{n}:{lab}") for lab, cfg in cfgs], "large")

    # -- B2: sorted(name) / sorted(value) must not change behaviour either (C09)
    def sorted_cfgs(self, n_decls):
        rng = self.rng
        for i in range(n_decls):
            r = rng.choice(["i8", "i16", "u8", "i64", "u32"])
            lo = -60 if prim.signed(r) else 0
            reals = sorted(rng.sample(range(lo, lo + 120), rng.choice([3, 4, 6, 9])))
            gapless = runs_of(reals) == 1
            p = prim.Proj(r)
            probes = sorted({p.to_model(x + d) for x in reals for d in (-1, 0, 1) if prim.tmin(r) <= x + d <= prim.tmax(r)})
            for which in ("name", "value"):
                # declaration order: by value for sorted(value); shuffled values under ascending names for sorted(name)
                vs = decorate(reals, r, rng, "ident", "asc" if which == "value" else "shuffle", "dec")
                names = sorted(rng.sample(["Aa", "Ab", "B", "Ba", "C", "D", "Da", "E", "Zz", "a", "ab", "b", "z", "é"], len(vs)))
                for v, nm in zip(vs, names):
                    v["ident"] = "V" + str(vs.index(v))
                    v["rename"] = nm
                script = make_script(vs, r, probes, rng, level="light")
                cases = []
                for lab, cfg in kappa_list(gapless)[:4]:
                    cases.append(self.new_case(r, vs, cfg, script, f"sorted:{lab}:plain"))
                    c2 = dict(cfg)
                    c2["sorted"] = [which] if rng.random() < 0.7 or which == "name" else ["value"]
                    cases.append(self.new_case(r, vs, c2, script, f"sorted:{lab}:{which}"))
                self.add_group("C09", cases, "sorted_cfgs")

    # -- C: permutations of the declaration order and admissible reprs (C18)
    def perms_reprs(self, n_maps):
        rng = self.rng
        for i in range(n_maps):
            n = rng.choice([1, 2, 3, 3, 4, 4, 5, 7])
            lo, hi = rng.choice([(0, 100), (0, 100), (-100, 100), (-128, 127), (0, 255), (-5, 5)])
            reals = sorted(rng.sample(range(lo, hi + 1), min(n, hi - lo + 1)))
            if rng.random() < 0.4:    # make some runs
                reals = sorted(set(reals) | {x + 1 for x in reals if x + 1 <= hi})
            admissible = [r for r in prim.REPRS if prim.tmin(r) <= reals[0] and reals[-1] <= prim.tmax(r)]
            base_vs = decorate(reals, admissible[0], rng, rng.choice(["ident", "renames"]), "asc", "dec")
            by_real = {v["real"]: v for v in base_vs}
            n = len(reals)
            if n <= 4 and self.tier == "thorough":
                orders = list(itertools.permutations(range(n)))
            else:
                orders = [tuple(range(n)), tuple(range(n))[::-1]] + [tuple(rng.sample(range(n), n)) for _ in range(3)]
                orders = list(dict.fromkeys(orders))
            gapless = runs_of(reals) == 1
            cfg = rng.choice(kappa_list(gapless)[:3])
            cases = []
            reprs = admissible if self.tier == "thorough" else rng.sample(admissible, min(4, len(admissible)))
            for k, r in enumerate(reprs):
                p = prim.Proj(r)
                probes = sorted({p.to_model(x + d) for x in reals for d in (-1, 0, 1) if prim.tmin(r) <= x + d <= prim.tmax(r)})
                for order in (orders if k == 0 else orders[:2]):
                    vs = [dict(by_real[sorted(reals)[j]]) for j in order]
                    for v in vs:
                        v["lit"] = str(v["real"])
                    srng = random.Random(f"{self.seed}-c18-{i}")     # same string probes / paths for the whole group
                    script = make_script(vs, r, probes, srng, level="light")
                    cases.append(self.new_case(r, vs, cfg[1], script, f"perm:{cfg[0]}:{r}"))
            self.add_group("C18", cases, "perms_reprs")

    # -- D: literal spellings and implicit discriminants (C11)
    def spellings(self, n_maps):
        rng = self.rng
        for i in range(n_maps):
            r = rng.choice(prim.REPRS)
            lo, hi = prim.dmin(r), prim.dmax(r)
            anchor = rng.choice([lo, lo + 1, 0 if lo <= 0 else lo, hi - 6, hi - 3, 1, 10, 255 if hi >= 255 else hi - 10,
                                 -129 if lo <= -129 else lo, 65535 if hi >= 65540 else 0])
            anchor = max(lo, min(hi - 8, anchor))
            n = rng.choice([2, 3, 4, 5])
            offs = sorted(rng.sample(range(0, 8), n))
            reals = [anchor + o for o in offs]
            if rng.random() < 0.3 and lo < 0:
                reals = sorted(set(reals) | {rng.choice([-1, -2, lo])})
            base = decorate(reals, r, rng, rng.choice(["ident", "renames"]), "asc", "dec")
            p = prim.Proj(r)
            probes = sorted({p.to_model(x + d) for x in reals for d in (-1, 0, 1) if prim.tmin(r) <= x + d <= prim.tmax(r)}
                            | {p.model_tmin(), p.model_tmax()})
            gapless = runs_of(reals) == 1
            cfg = rng.choice(kappa_list(gapless)[:3])
            srng = random.Random(f"{self.seed}-c11-{i}")
            script = make_script(base, r, probes, srng, level="light")
            cases = [self.new_case(r, base, cfg[1], script, f"spell:dec:{r}")]
            styles = ["implicit", "suffix", "hex", "oct", "bin", "HEX", "sep", "sepsuffix", "mixed", "mixed"]
            for st in (styles if self.tier == "thorough" else rng.sample(styles, 4)):
                # same variants, same declaration order (ascending keeps `implicit` applicable), other spelling
                vs, prev = [], None
                for v in base:
                    s2 = st if st != "mixed" else rng.choice(SPELL_STYLES)
                    w = dict(v)
                    w["lit"] = spell(v["real"], r, s2, prev)
                    if rng.random() < 0.3:
                        w["attrs"] = [rng.choice(VARIANT_FOREIGN_ATTRS)]
                    prev = v["real"]
                    vs.append(w)
                c = self.new_case(r, vs, dict(cfg[1]), script, f"spell:{st}:{r}")
                if rng.random() < 0.3:
                    c["cfg"] = dict(c["cfg"])
                    c["cfg"]["extra_attrs"] = [rng.choice(ENUM_FOREIGN_ATTRS)]
                cases.append(c)
            self.add_group("C11", cases, "spellings")

    # -- E: hostile scope contexts (C16): same declaration and configuration, other surroundings
    def contexts(self, kappas=("match_nab", "table_table", "auto", "inline", "range")):
        import contexts as cx
        rng = self.rng
        for r, reals in (("i8", [-2, -1, 0, 1]), ("u16", [0, 1, 5, 6, 9]), ("i64", [-9, -8, 3])):
            gapless = runs_of(reals) == 1
            vs = decorate(reals, r, rng, "renames", "shuffle", "dec")
            p = prim.Proj(r)
            probes = sorted({p.to_model(x + d) for x in reals for d in (-1, 0, 1) if prim.tmin(r) <= x + d <= prim.tmax(r)}
                            | {p.model_tmin(), p.model_tmax()})
            script = make_script(vs, r, probes, rng, level="light", str_cap=16, pairs_cap=9)
            for lab, cfg in kappa_list(gapless):
                if lab not in kappas:
                    continue
                cases = [self.new_case(r, vs, cfg, script, f"ctx:{lab}:{c}", ctx=c) for c in cx.ORDER]
                self.add_group("C16", cases, "contexts")

    # -- E3: the enum ITSELF is the user item named like a prelude / core item (C16)
    def hostile_enum_names(self, names=("Some", "None", "Ok", "Err", "Option", "Result", "Iterator", "IntoIterator", "DoubleEndedIterator",
                                        "ExactSizeIterator", "FusedIterator", "From", "Into", "TryFrom", "FromStr", "Copy", "Clone", "Debug",
                                        "Display", "Formatter", "Error", "Sized", "Default", "Self_", "RangeInclusive", "MaybeUninit", "Map",
                                        "Copied", "IntoIter", "Iter", "Vec", "String", "Box", "r#async", "r#type", "Größe", "列挙",
                                        # names that generated generic methods use for their type parameters (fold<B, F>, ...)
                                        "B", "F", "T", "I", "R", "P", "U", "Acc", "G", "S")):
        rng = self.rng
        for r, reals in (("i8", [-3, 5, 6]), ("u16", [0, 1, 2])):
            gapless = runs_of(reals) == 1
            vs = decorate(reals, r, rng, "renames", "shuffle", "dec")
            p = prim.Proj(r)
            probes = sorted({p.to_model(x + d) for x in reals for d in (-1, 0, 1) if prim.tmin(r) <= x + d <= prim.tmax(r)})
            script = make_script(vs, r, probes, rng, level="light", str_cap=6, pairs_cap=9)
            for lab, cfg in kappa_list(gapless):
                if lab not in ("match_nab", "table_table", "inline", "mixed2", "range"):
                    continue
                cases = [self.new_case(r, vs, cfg, script, f"ename:{lab}:E")]
                for nm in names:
                    c = self.new_case(r, vs, cfg, script, f"ename:{lab}:{nm}")
                    c["ename"] = nm
                    cases.append(c)
                self.add_group("C16", cases, "contexts")
                # the iterator structs under user-chosen names that equal a trait the generated bodies import
                if "range" in dict(cfg["feats"]) or lab == "inline":
                    cases = [self.new_case(r, vs, cfg, script, f"sname:{lab}:default")]
                    for nm in ("Iterator", "IntoIterator", "DoubleEndedIterator", "FusedIterator", "Option", "From"):
                        feats = [(f, dict(pr, **({"struct_name": nm} if f == "iter" else {"struct_name": nm + "2"} if f == "names" else {})))
                                 for f, pr in cfg["feats"]]
                        cases.append(self.new_case(r, vs, {"feats": feats, "split": cfg.get("split", "one")}, script, f"sname:{lab}:{nm}"))
                    self.add_group("C16", cases, "contexts")

    # -- E4: VARIANTS named like prelude / core items or like associated items of the implemented traits (C16)
    def hostile_variant_names(self):
        rng = self.rng
        pools = [["None", "Some", "Ok", "Err", "Error", "Item"], ["Option", "Result", "Iterator", "IntoIterator", "Default", "Output"],
                 ["Self_", "Copy", "Clone", "From", "Into", "Debug", "Display", "FromStr", "TryFrom"], ["Err", "Error"], ["Item", "IntoIter", "Iter"],
                 # variants named like the constants the derive can generate, in configurations that do NOT request those constants
                 # (the helper constants behind next / next_back / iter must not be confused with the variants)
                 ["COUNT", "MIN", "MAX", "SUM", "AVG"]]
        for k, idents in enumerate(pools):
            for r, gap in (("i8", True), ("u16", False)):
                n = len(idents)
                reals = list(range(-2, -2 + n)) if gap and prim.signed(r) else ([3 * j + (j // 2) for j in range(n)] if not gap else list(range(n)))
                if not prim.signed(r):
                    reals = [abs(x) + (0 if gap else 1) for x in reals]
                    reals = sorted(set(reals))[:n]
                    while len(reals) < n:
                        reals.append(reals[-1] + 2)
                gapless = runs_of(reals) == 1
                plain = decorate(reals, r, rng, "ident", "shuffle", "dec")
                hostile = [dict(v) for v in plain]
                for v, nm in zip(hostile, idents):
                    v["rename"] = v["ident"]          # same NAME as the plain member, other identifier
                    v["ident"] = nm
                p = prim.Proj(r)
                probes = sorted({p.to_model(x + d) for x in reals for d in (-1, 0, 1) if prim.tmin(r) <= x + d <= prim.tmax(r)})
                script = make_script(plain, r, probes, rng, level="light", str_cap=8, pairs_cap=9)
                for lab, cfg in kappa_list(gapless):
                    if lab in ("auto_norange", "mixed1"):
                        continue
                    if "MIN" in idents:
                        cfg = {"feats": [(f, pr) for f, pr in cfg["feats"] if f not in ("MIN", "MAX")], "split": cfg.get("split", "one")}
                    cases = [self.new_case(r, plain, cfg, script, f"vname:{lab}:plain"), self.new_case(r, hostile, cfg, script, f"vname:{lab}:hostile{k}")]
                    self.add_group("C16", cases, "contexts")

    # -- E2: hostile scopes on TLC shapes with many runs (C16)
    def contexts_on_shapes(self, reprs, per_repr):
        import contexts as cx
        rng = self.rng
        for r in reprs:
            cs = stimuli.corpus_sets(r)
            p = prim.Proj(r)
            many = sorted(cs["cases"], key=lambda c: (-c["runs"], len(c["s"])))[:40]
            for c in rng.sample(many, min(per_repr, len(many))):
                reals = [p.to_real(m) for m in c["s"]]
                vs = decorate(reals, r, rng, "renames", "shuffle", "dec")
                script = make_script(vs, r, c["probes"], rng, level="light", str_cap=10, pairs_cap=8)
                for lab, cfg in rng.sample(kappa_list(False)[:6], 2):
                    ctxs = ["plain"] + rng.sample([x for x in cx.ORDER if x != "plain"], 3)
                    cases = [self.new_case(r, vs, cfg, script, f"ctxshape:{lab}:{x}", ctx=x) for x in ctxs]
                    self.add_group("C16", cases, "contexts")

    # -- H: renamed items (C15): behaviour through the requested names equals behaviour through the defaults
    def renamed(self):
        rng = self.rng
        for r, reals in (("i16", [-3, -2, 4, 5, 6]), ("u8", [0, 1, 2])):
            gapless = runs_of(reals) == 1
            vs = decorate(reals, r, rng, "renames", "shuffle", "dec")
            p = prim.Proj(r)
            probes = sorted({p.to_model(x + d) for x in reals for d in (-1, 0, 1) if prim.tmin(r) <= x + d <= prim.tmax(r)})
            script = make_script(vs, r, probes, rng, level="light", str_cap=16, pairs_cap=9)
            for lab, cfg in kappa_list(gapless)[:4]:
                ren = {f: {"name": f"r_{f.lower()}", "vis": "pub"} for f in render.DEFAULT_NAME}
                ren["iter"]["struct_name"] = "MyIter"
                ren["names"]["struct_name"] = "MyNames"
                some = {f: ({"name": f"x{f.lower()}"} if i % 2 else {"vis": "pub"}) for i, f in enumerate(render.DEFAULT_NAME)}
                # identifiers are Unicode (XID), not ASCII
                # (XID_Start / XID_Continue: letters of any script, combining marks, viramas, tone marks, the middle dot)
                pool = ["größe_%s", "क्रम_%s", "ชื่อ_%s", "x\u0302_%s", "名前_%s", "a\u00b7b_%s", "_%s\u0301", "ĳ_%s"]
                uni = {f: {"name": pool[i % len(pool)] % f.lower()} for i, f in enumerate(render.DEFAULT_NAME)}
                uni["iter"]["struct_name"] = "क्रमसूची"
                uni["names"]["struct_name"] = "ชื่อNamesx\u0302"
                variants = [cfg]
                for extra in (ren, some, uni):
                    feats = [(f, dict(pr, **extra.get(f, {}))) for f, pr in cfg["feats"]]
                    variants.append({"feats": feats, "split": cfg.get("split", "one")})
                cases = [self.new_case(r, vs, c, script, f"ren:{lab}:{i}") for i, c in enumerate(variants)]
                self.add_group("C15", cases, "renamed")

    # -- F: large enums, random histories
    def large_fixed(self, shapes):
        """shapes: (repr, sorted reals): enums whose table indices exceed the signed half of the repr, full 8-bit types, ..."""
        rng = self.rng
        for r, reals in shapes:
            vs = decorate(reals, r, rng, "ident", rng.choice(["asc", "shuffle"]), "dec")
            for v in vs:
                if rng.random() < 0.1:
                    v["rename"] = "r" + v["ident"]
            p = prim.Proj(r)
            pr = {p.model_tmin(), p.model_tmax()}
            for x in rng.sample(reals, min(30, len(reals))) + [reals[0], reals[-1]]:
                for d in (-1, 0, 1):
                    if prim.tmin(r) <= x + d <= prim.tmax(r):
                        pr.add(p.to_model(x + d))
            bysort = sorted(vs, key=lambda v: v["real"])
            sub = bysort[:4] + bysort[-4:] + bysort[126:131] + bysort[254:258] + bysort[32766:32770] + rng.sample(vs, min(16, len(vs)))
            sub = list({v["ident"]: v for v in sub}.values())
            script = make_script_large(vs, sub, r, sorted(pr), rng)
            gapless = runs_of(reals) == 1
            ks = kappa_list(gapless)
            cases = [self.new_case(r, vs, cfg, script, f"large{len(reals)}:{lab}") for lab, cfg in (ks[:3] if len(reals) < 1000 else ks[1:3])]
            self.add_group("C09", cases, "large")
            # the same enum in hostile scopes (C16): scope slips may hide in shape-specific branches of the generated code
            # (gapless: under the explicit table configuration AND under auto -- size-dependent branches exist in both)
            for lab, cfg in ([ks[1], ks[2]] if gapless and len(reals) < 1000 else [ks[1] if len(reals) % 2 else ks[2]]):
                twins = [self.new_case(r, vs, cfg, script, f"ctxlarge{len(reals)}:{lab}:{c}", ctx=c) for c in ("plain", "no_prelude", "all_types", "all_traits")]
                self.add_group("C16", twins, "contexts")

    # -- N: every special rename string, in every string mode, independent of the seed (C03, C04, C08)
    def names_fixed(self):
        rng = random.Random("names-fixed")
        pool = list(dict.fromkeys(RENAME_POOL + ["Zwölf", "α", "βγ", "\t", " ", "a b", "A", "a", "aa", "aA", "x" * 40]))
        n = len(pool)
        for r, reals in (("i16", [(-20 + 2 * i + (i // 3)) for i in range(n)]), ("u8", list(range(3, 3 + n)))):
            idents = [f"V{i:02d}" for i in range(n)]
            order = list(range(n))
            rng.shuffle(order)
            vs = [{"ident": idents[i], "real": reals[i], "lit": str(reals[i]), "rename": pool[i]} for i in order]
            p = prim.Proj(r)
            probes = sorted({p.to_model(x + d) for x in reals[:6] for d in (-1, 0, 1) if prim.tmin(r) <= x + d <= prim.tmax(r)})
            script = make_script_large(vs, vs, r, probes, rng)
            gapless = runs_of(reals) == 1
            cases = [self.new_case(r, vs, cfg, script, f"names:{lab}") for lab, cfg in kappa_list(gapless)
                     if lab in ("match_nab", "table_table", "auto", "inline", "mixed1", "mixed2")]
            self.add_group("C09", cases, "names_fixed")
        # names of EQUAL length in characters but not in bytes (a fixed-width packing of the name table would mix them up),
        # equal length in bytes but not in characters, all empty but one, ...
        for k, names in enumerate((["äb", "cd", "€f", "gh", "ij"], ["ä", "b", "ß", "d"], ["aaa", "日本語", "bbb"], ["ab", "é", "cd"],
                                   ["", "", "x"], ["USD", "EUR", "ÄÖÜ", "JPY", "CHF", "€€€"])):
            for r, gap in (("u8", True), ("i64", False)):
                n = len(names)
                reals = list(range(2, 2 + n)) if gap else [(-7 if prim.signed(r) else 1) + 3 * j + (j // 2) for j in range(n)]
                order = list(range(n))
                rng.shuffle(order)
                vs = [{"ident": f"W{i}", "real": reals[i], "lit": str(reals[i]), "rename": names[i]} for i in order]
                p = prim.Proj(r)
                probes = sorted({p.to_model(x + d) for x in reals for d in (-1, 0, 1) if prim.tmin(r) <= x + d <= prim.tmax(r)})
                script = make_script(vs, r, probes, rng, level="light", str_cap=30, pairs_cap=6)
                cases = [self.new_case(r, vs, cfg, script, f"names:w{k}:{lab}") for lab, cfg in kappa_list(runs_of(reals) == 1)
                         if lab in ("match_nab", "table_table", "auto", "inline", "mixed1")]
                self.add_group("C09", cases, "names_fixed")

    # -- N2: raw identifiers (r#type names `type`)
    def raw_idents(self):
        rng = random.Random("raw-idents")
        for r, reals in (("u8", [0, 1, 2, 3, 4]), ("i16", [-7, -6, 1, 5, 6])):
            ids = ["r#type", "r#match", "Plain", "r#fn", "r#loop"]
            vs = [{"ident": ids[i], "real": reals[i], "lit": str(reals[i]), "rename": ("fn" if ids[i] == "r#fn" else None)} for i in (2, 0, 4, 1, 3)]
            p = prim.Proj(r)
            probes = sorted({p.to_model(x + d) for x in reals for d in (-1, 0, 1) if prim.tmin(r) <= x + d <= prim.tmax(r)})
            script = make_script(vs, r, probes, rng, level="light", str_cap=40, pairs_cap=6)
            cases = [self.new_case(r, vs, cfg, script, f"rawid:{lab}") for lab, cfg in kappa_list(runs_of(reals) == 1)
                     if lab in ("match_nab", "table_table", "auto", "inline", "mixed1", "mixed2")]
            self.add_group("C09", cases, "names_fixed")
        for r, reals in (("u8", [0, 1, 2, 3, 4]), ("i16", [-7, -6, 1, 5, 6])):
            ids = ["Äpfel", "ßeta", "Plain", "Ωmega", "日本"]
            vs = [{"ident": ids[i], "real": reals[i], "lit": str(reals[i]), "rename": None} for i in (2, 0, 4, 1, 3)]
            p = prim.Proj(r)
            probes = sorted({p.to_model(x + d) for x in reals for d in (-1, 0, 1) if prim.tmin(r) <= x + d <= prim.tmax(r)})
            script = make_script(vs, r, probes, rng, level="light", str_cap=40, pairs_cap=6)
            cases = [self.new_case(r, vs, cfg, script, f"uniid:{lab}") for lab, cfg in kappa_list(runs_of(reals) == 1)
                     if lab in ("match_nab", "table_table", "auto", "inline")]
            self.add_group("C09", cases, "names_fixed")

    # -- F2: discriminants that are far apart by (almost) a power of two: a span computed in a narrower type aliases
    #        them with a gapless enum  (span = count - 1  modulo 2^k)
    def alias_shapes(self):
        rng = self.rng
        shapes = []
        small = set()
        for r, k in (("u64", 32), ("i64", 32), ("u128", 32), ("isize", 32), ("u32", 16), ("i32", 16), ("u32", 8), ("u16", 8), ("i64", 16), ("i128", 8)):
            for m, base in ((3, 0), (4, 5), (2, 1)):
                if prim.signed(r) and rng.random() < 0.5:
                    base = -base - m
                reals = [base + i for i in range(m - 1)] + [base + (1 << k) + (m - 1)]
                if reals[-1] <= prim.dmax(r):
                    shapes.append((r, reals))
        # spans at the widths of machine words (bit-set / bitmap fast paths): max - min in {31..33, 63..65, 127..129, 255}
        for span in (31, 32, 33, 63, 64, 65, 127, 128, 129, 255):
            for r in ("u8", "i8", "i64", "u64", "u16"):
                if span > prim.dmax(r) - prim.dmin(r):
                    continue
                b = prim.dmin(r) if (prim.bits_of(r) == 8 or rng.random() < 0.3) else rng.choice([0, -40 if prim.signed(r) else 3])
                b = max(prim.dmin(r), min(b, prim.dmax(r) - span))
                reals = sorted({b, b + 1, b + 3, b + span - 2, b + span})
                shapes.append((r, reals))
        # pointer-sized reprs around 2^31 / 2^32 (a size guess of 4 bytes for usize / isize must not leak into behaviour)
        for r, reals in (("usize", [(1 << 32) - 3, (1 << 32) - 2, (1 << 32) - 1]), ("usize", [(1 << 32) - 1, 1 << 32, (1 << 32) + 1]),
                         ("usize", [0, 1, (1 << 32) - 1, 1 << 32, (1 << 32) + 5]), ("isize", [(1 << 31) - 3, (1 << 31) - 2, (1 << 31) - 1]),
                         ("isize", [-(1 << 31), -(1 << 31) + 1, -(1 << 31) + 2]), ("isize", [-(1 << 31) - 1, -(1 << 31), 0, (1 << 31) - 1, 1 << 31]),
                         ("usize", [(1 << 32) + 70_000, (1 << 32) + 70_001, (1 << 32) + 70_007]), ("u64", [(1 << 32) - 2, (1 << 32) - 1, 1 << 32]),
                         ("i64", [(1 << 31) - 1, 1 << 31, (1 << 31) + 1]),
                         # at most 8 guessed bytes: the inline-table / packed paths of small enums
                         ("usize", [7, (1 << 32) + 7]), ("isize", [-(1 << 32) - 7, 5]), ("usize", [(1 << 32) - 1, 1 << 32]), ("isize", [-(1 << 31) - 1]),
                         ("u64", [(1 << 32) + 7]), ("u32", [7, (1 << 16) + 7]), ("u16", [7, 256 + 7, 519, 1000])):
            shapes.append((r, reals))
            small.add((r, tuple(reals)))
        for r, reals in shapes:
            vs = decorate(reals, r, rng, rng.choice(["ident", "renames"]), rng.choice(["asc", "shuffle"]), "dec")
            p = prim.Proj(r, True)
            probes = sorted({p.to_model(x + d) for x in reals for d in (-1, 0, 1, 2) if prim.tmin(r) <= x + d <= prim.tmax(r)}
                            | {p.model_tmin(), p.model_tmax()})
            script = make_script(vs, r, probes, rng, level="light", str_cap=8, pow2=True)
            cases = []
            ks = kappa_list(runs_of(reals) == 1)
            for lab, cfg in (ks[:3] if (r, tuple(reals)) not in small else [k for k in ks if k[0] in ("match_nab", "table_table", "auto", "inline", "auto_norange")]):
                c = self.new_case(r, vs, cfg, script, f"alias:{lab}")
                c["pow2"] = True
                cases.append(c)
            self.add_group("C09", cases, "alias_shapes")

    def large(self, sizes):
        rng = self.rng
        for n in sizes:
            r = rng.choice(["i16", "u16", "i32", "u64", "i64", "i128", "isize"] if n > 250 else ["u8", "i8", "i16", "u64"])
            lo, hi = prim.dmin(r), prim.dmax(r)
            kind = rng.choice(["gapless", "holes", "holes", "at_min", "at_max"])
            if n > hi - lo:
                n = (hi - lo) // 2
            if kind == "gapless":
                start = rng.choice([lo, hi - n + 1, max(lo, -n // 2), 0 if lo <= 0 else lo])
                start = max(lo, min(start, hi - n + 1))
                reals = list(range(start, start + n))
            else:
                start = lo if kind == "at_min" else (max(lo, -n) if kind == "holes" else hi - 2 * n)
                start = max(lo, min(start, hi - 2 * n))
                pool = range(start, min(hi, start + 2 * n) + 1)
                reals = sorted(rng.sample(pool, min(n, len(pool) - 1)))
                if kind == "at_max":
                    reals[-1] = hi
                if kind == "at_min":
                    reals[0] = lo
                reals = sorted(set(reals))
            vs = decorate(reals, r, rng, "ident", rng.choice(["asc", "shuffle"]), "dec")
            for v in vs:
                if rng.random() < 0.1:
                    v["rename"] = "r" + v["ident"]
            p = prim.Proj(r)
            pr = set()
            for x in rng.sample(reals, min(40, len(reals))) + [reals[0], reals[-1]]:
                for d in (-1, 0, 1):
                    if prim.tmin(r) <= x + d <= prim.tmax(r):
                        pr.add(p.to_model(x + d))
            pr |= {p.model_tmin(), p.model_tmax()}
            bysort = sorted(vs, key=lambda v: v["real"])
            sub = bysort[:4] + bysort[-4:] + bysort[126:130] + bysort[254:258] + rng.sample(vs, min(20, len(vs)))
            sub = list({v["ident"]: v for v in sub}.values())
            script = make_script_large(vs, sub, r, sorted(pr), rng)
            gapless = runs_of(reals) == 1
            cases = [self.new_case(r, vs, cfg, script, f"large{len(reals)}:{lab}") for lab, cfg in kappa_list(gapless)[:3]]
            self.add_group("C09", cases, "large")


def make_script_large(vs, sub, r, probes_model, rng):
    """pure calls on a sample of variants + random iterator histories"""
    p = prim.Proj(r)
    L = []
    for m in probes_model:
        try:
            x = p.to_real(m)
        except ValueError:
            x = next(fx for fx in p.far_reals() if p.to_model(fx) == m)
        for f in ("try_from", "try_from_t"):
            L.append(f"s tf:{m} call {f} {p.bits(x)}")
    L += truncation_probes(sorted(v["real"] for v in vs), r, p)
    for v in sub:
        m = p.to_model(v["real"])
        for f in ("into", "into_t", "as_str", "display", "debug", "into_str", "next", "next_back"):
            L.append(f"s {SIGFAM[f]}:{m} call {f} {p.bits(v['real'])}")
        s = name_of(v)
        for t in (s, s + " ", s[:-1]):
            cp = " ".join(str(ord(c)) for c in t)
            for f in ("from_str", "from_str_t"):
                L.append(f"s fs:{h(t)} call {f} {cp}".rstrip())
    L += ["s min call min", "s max call max"] + (["s zip call zip"] if len(vs) <= 5000 else [])
    call_lines = [x for x in L if " call " in x and " call zip" not in x]
    L += make_script(vs, r, [], rng, level="std", calls=False)
    # history independence: a seeded sample of the pure calls again, in random order, after the iterator sessions
    L += [rng.choice(call_lines) for _ in range(60)]
    return L


# ------------------------------------------------------------------------------------------------
# the plans of the two tiers

def build_plan(tier, seed):
    pl = Plan(tier, seed)
    rot = [r for r in prim.REPRS if r not in QUICK_REPRS_FIXED]
    if tier == "miri":
        # one case per unsafe site family, executed under Miri (C02): gapless and with holes, runs touching both type limits
        pl.mini(decls=[("i8", [-128, -127, -3, -1, 127]), ("u8", [0, 1, 2, 3])], level="light", str_cap=3, pairs_cap=9,
                kappas=("match_nab", "table_table", "auto", "range"))
    elif tier == "miri_thorough":
        pl.mini(decls=[("i8", [-128, -127, -3, -1, 127]), ("u8", [0, 1, 2, 3]), ("i16", [-32768, 5, 6, 32767]), ("u64", [0, 7, 9223372036854775807]),
                       ("i128", [-9223372036854775808, -1, 0]), ("usize", [3]), ("u8", [0, 2, 4, 6, 8, 10, 12, 14, 255]), ("i32", [-2, -1, 0, 1, 2, 3])],
                level="light", str_cap=4, pairs_cap=12, kappas=None)
    elif tier == "mini":
        # a handful of cases covering every unsafe site and iterator representation: used by `setup`
        # (binding self-test) and as the Miri corpus
        pl.mini()
    elif tier == "editions":
        # the corpus of the edition twins (engine_rt): every feature alone / in every mode / all together on a gapless enum, an
        # enum with holes, a two-variant pointer-sized enum, a 10-run enum; some of it in hostile scopes
        pl.solo_cfgs(which={0, 1, 3, 6})
        pl.contexts(kappas=("auto", "inline"))
    elif tier == "quick":
        reprs = QUICK_REPRS_FIXED + [rot[seed % len(rot)]]
        pl.shapes(reprs, per_repr_small=110, per_repr_large=25)
        pl.full_paths()
        pl.config_matrix(n_sparse=10)
        pl.sorted_cfgs(6)
        pl.names_fixed()
        pl.solo_cfgs()
        pl.pairwise(250)
        pl.many_enums(530)
        pl.all_reprs()
        pl.huge_sparse_cfgs()
        pl.raw_idents()
        pl.alias_shapes()
        pl.perms_reprs(30)
        pl.spellings(40)
        pl.contexts()
        pl.contexts_on_shapes(["i8", "u64"], 4)
        pl.hostile_enum_names()
        pl.hostile_variant_names()
        pl.renamed()
        pl.large([60, 300, 1200])
        pl.large_fixed([("i8", list(range(-128, 128))), ("u8", list(range(0, 256))), ("i8", list(range(-100, 100))),
                        ("i8", [x for x in range(-128, 128) if x not in (-100, -99, 0, 50, 51, 52, 90, 120, 126)]),
                        ("u8", [x for x in range(0, 256) if x % 37 != 5]),
                        ("i16", list(range(-20, 280))), ("u16", [x for x in range(0, 310) if x != 100]),
                        ("i16", [-300, -299, -100, -1, 0, 1, 7, 20, 21, 22, 100, 1000, 1001, 5000, 5002, 5004, 32767]),
                        ("u8", [x for x in range(0, 100) if x % 5 != 0]), ("i64", [x for x in range(-40, 40) if x % 3 != 0]),
                        # enums WITH HOLES in which one run spans more than half of a one-byte signed type (its length does not
                        # fit the repr): at the lower limit, in the middle, at the upper limit
                        ("i8", list(range(-128, 20)) + [50]), ("i8", [-128] + list(range(-100, 50)) + [127]),
                        ("i8", [-128, -127] + list(range(-10, 128))),
                        # many runs of several values (more than 32 / 64 runs: blocked searches over the run table)
                        ("i16", [10 * k + j - 200 for k in range(40) for j in range(3)]), ("u8", [3 * k + j for k in range(85) for j in range(2)])])
    else:
        pl.shapes(prim.REPRS, per_repr_small=None, per_repr_large=200, kappas_per_shape=3)
        pl.full_paths()
        pl.config_matrix(n_sparse=60)
        pl.sorted_cfgs(60)
        pl.names_fixed()
        pl.solo_cfgs()
        pl.pairwise(1 << 30)
        pl.many_enums(530)
        pl.all_reprs()
        pl.huge_sparse_cfgs()
        pl.raw_idents()
        pl.alias_shapes()
        pl.perms_reprs(150)
        pl.spellings(200)
        pl.contexts()
        pl.contexts_on_shapes(prim.REPRS, 10)
        pl.hostile_enum_names()
        pl.hostile_variant_names()
        pl.renamed()
        pl.large([60, 127, 250, 300, 700, 1200, 2000, 5000])
        pl.large_fixed([("i8", list(range(-128, 128))), ("u8", list(range(0, 256))), ("i8", list(range(-100, 100))),
                        ("i8", [x for x in range(-128, 128) if x not in (-100, -99, 0, 50, 51, 52, 90, 120, 126)]),
                        ("u8", [x for x in range(0, 256) if x % 37 != 5]),
                        ("i16", list(range(-20, 280))), ("u16", [x for x in range(0, 310) if x != 100]),
                        ("i16", [-300, -299, -100, -1, 0, 1, 7, 20, 21, 22, 100, 1000, 1001, 5000, 5002, 5004, 32767]),
                        ("u8", [x for x in range(0, 100) if x % 5 != 0]), ("i64", [x for x in range(-40, 40) if x % 3 != 0]),
                        ("i8", list(range(-128, 20)) + [50]), ("i8", [-128] + list(range(-100, 50)) + [127]),
                        ("i8", [-128, -127] + list(range(-10, 128))),
                        ("i16", [10 * k + j - 200 for k in range(40) for j in range(3)]), ("u8", [3 * k + j for k in range(85) for j in range(2)]),
                        ("i64", list(range(-9223372036854775808, -9223372036854775808 + 3000)))])
    return pl


# ------------------------------------------------------------------------------------------------
# writing the corpus crate

CARGO_TOML = """[package]
name = "rtcorpus"
version = "0.0.0"
edition = "%(edition)s"
autobins = true

[dependencies]
enum-tools = { path = "%(repo)s" }
rt = { path = "%(rt)s" }

[workspace]

[profile.dev]
debug = false
incremental = false
opt-level = 0
debug-assertions = true
overflow-checks = true

[profile.dev.build-override]
opt-level = 1
debug = false

# the optimised twin of the small corpus (engine_rt: what an optimiser makes of the unsafe blocks)
[profile.release]
debug = false
incremental = false
opt-level = 3
debug-assertions = false
overflow-checks = false
codegen-units = 16

[profile.release.build-override]
opt-level = 1
debug = false
"""


def write_crate(pl, outdir, cases_per_bin=120, rustflags=True, edition="2021"):
    """returns meta: {"bins": [{"name", "src", "script", "cases":[{id, grp, gprop, label, start, decl, glue}]}]}"""
    import shutil
    here = os.path.dirname(os.path.abspath(__file__))
    rt = os.path.join(os.path.dirname(here), "harness", "rt")
    if os.path.exists(outdir):
        shutil.rmtree(outdir)
    os.makedirs(os.path.join(outdir, "src", "bin"))
    os.makedirs(os.path.join(outdir, "scripts"))
    os.makedirs(os.path.join(outdir, ".cargo"))
    open(os.path.join(outdir, "Cargo.toml"), "w").write(CARGO_TOML % {"rt": rt, "repo": REPO, "edition": edition})
    # edition 2015: absolute paths start at the crate root, where only `std` is declared implicitly
    externs = ["extern crate core;", "extern crate enum_tools;", "extern crate rt;", "extern crate rtcorpus;"] if edition == "2015" else []
    shutil.copy(os.path.join(REPO, "Cargo.lock"), os.path.join(outdir, "Cargo.lock"))
    open(os.path.join(outdir, ".cargo", "config.toml"), "w").write(
        "[net]\noffline = true\n" + ("[build]\nrustflags = [\"--cfg\", \"enum_tools_verif\", \"--check-cfg\", \"cfg(enum_tools_verif)\"]\n" if rustflags else ""))
    # bins: groups are never split
    bins, cur, cnt = [], [], 0
    for g in pl.groups:
        if cur and (cnt + len(g["cases"]) > cases_per_bin or cases_per_bin == 0):
            bins.append(cur)
            cur, cnt = [], 0
        cur.append(g)
        cnt += len(g["cases"])
    if cur:
        bins.append(cur)
    import contexts as cx
    meta = {"bins": [], "lib": {"src": "src/lib.rs", "cases": []}}
    lib = ["#![no_std]", "#![allow(warnings)]"] + (["extern crate enum_tools;"] if edition == "2015" else [])
    for bi, groups in enumerate(bins):
        name = f"b{bi:03d}"
        src = ["#![allow(warnings)]"] + externs
        script, blocks, bm = [], {}, []
        mains = []
        for g in groups:
            for c in g["cases"]:
                ctx = c.get("ctx", "plain")
                prelude = cx.CONTEXTS[ctx]
                libspan = None
                if ctx.startswith("no_std"):
                    # the declaration lives in the #![no_std] library of this package; the glue stays in the (std) binary
                    dl, dr = render.decl_module(c, prelude)
                    ls = len(lib)
                    lib += dl
                    libspan = {"start": ls, "end": ls + len(dl), "decl": [ls + dr[0], ls + dr[1]]}
                    lines, d, gl = render.case_module(c, None, extern_decl=f"::rtcorpus::c{c['id']}::d")
                else:
                    lines, d, gl = render.case_module(c, prelude)
                start = len(src)
                src += lines
                mains.append(f"c{c['id']}::g::case")
                p = prim.Proj(c["repr"], c.get("pow2", False))
                text = "\n".join(c["script"])
                bid = h(text, 12)
                if bid not in blocks:
                    blocks[bid] = True
                    script.append(f"block {bid}")
                    script.append(text)
                    script.append("endblock")
                script.append(f"case {c['id']} {g['id']} {g['gprop'] or '-'} {p.model_tmin()} {p.model_tmax()}")
                script += p.script_lines()
                for v in c["variants"]:
                    if v["rename"] is not None:
                        script.append(("name %s R %s" % (v["ident"], " ".join(str(ord(ch)) for ch in v["rename"]))).rstrip())
                    else:
                        script.append(f"name {v['ident']} -")
                script.append(f"use {bid}")
                bm.append({"id": c["id"], "grp": g["id"], "gprop": g["gprop"], "kind": g["kind"], "label": c["label"],
                           "repr": c["repr"], "n": len(c["variants"]), "start": start, "end": start + len(lines),
                           "decl": [start + d[0], start + d[1]], "glue": [start + gl[0], start + gl[1]],
                           "attrs": render.attr_lines(c["cfg"]), "ctx": c.get("ctx", "plain"), "lib": libspan})
                if libspan:
                    meta["lib"]["cases"].append({"id": c["id"], **libspan})
        src.append("fn main() { ::rt::main(vec![")
        main_line = len(src)
        for m in mains:
            src.append(f"    {m},")
        src.append("]); }")
        open(os.path.join(outdir, "src", "bin", name + ".rs"), "w").write("\n".join(src) + "\n")
        open(os.path.join(outdir, "src", "bin", name + ".rs.orig"), "w").write("\n".join(src) + "\n")   # for replay files
        open(os.path.join(outdir, "scripts", name + ".txt"), "w").write("\n".join(script) + "\n")
        meta["bins"].append({"name": name, "src": f"src/bin/{name}.rs", "script": f"scripts/{name}.txt",
                             "cases": bm, "main_line": main_line})
    open(os.path.join(outdir, "src", "lib.rs"), "w").write("\n".join(lib) + "\n")
    open(os.path.join(outdir, "src", "lib.rs.orig"), "w").write("\n".join(lib) + "\n")
    json.dump(meta, open(os.path.join(outdir, "meta.json"), "w"))
    return meta


if __name__ == "__main__":
    import sys, time
    t0 = time.time()
    pl = build_plan(sys.argv[1] if len(sys.argv) > 1 else "quick", int(sys.argv[2]) if len(sys.argv) > 2 else 0)
    n = sum(len(g["cases"]) for g in pl.groups)
    steps = sum(len(c["script"]) for g in pl.groups for c in g["cases"])
    print("groups", len(pl.groups), "cases", n, "script steps", steps, "plan s", round(time.time() - t0, 1))
    meta = write_crate(pl, os.path.join(stimuli.WORK, "rt", "test"))
    print("bins", len(meta["bins"]), "total s", round(time.time() - t0, 1))
