"""Primitive repr types and the order-embedding of their values into TLC's 32-bit integers.

See spec/Prim.tla for the specification side.  Nothing here computes an expected result of the
code under test: it only translates *stimuli* (model coordinate -> real literal) and the cluster
table that the runner uses to translate *observations* (real value -> model coordinate).

A repr type is abstracted by its landmarks  TMIN, max(TMIN, i64::MIN), 0, min(TMAX, i64::MAX), TMAX
(plus, in the thorough tier, the powers of two inside the type).  Landmarks closer than 2*W are merged
into one cluster; a cluster [lo-W, hi+W] (clipped to the type) maps affinely (slope 1) into the model,
the cluster containing 0 maps 0 to 0, clusters are separated by a model gap, and every value outside
all clusters ("far") maps to one representative between its neighbouring clusters.
"""
I64MIN, I64MAX = -(1 << 63), (1 << 63) - 1
W = 200_000          # window radius around a landmark
GAP = 1_000          # model gap between clusters

REPRS = ["u8", "i8", "u16", "i16", "u32", "i32", "u64", "i64", "u128", "i128", "usize", "isize"]


def bits_of(r):
    return {"u8": 8, "i8": 8, "u16": 16, "i16": 16, "u32": 32, "i32": 32, "u64": 64, "i64": 64,
            "u128": 128, "i128": 128, "usize": 64, "isize": 64}[r]


def signed(r):
    return r[0] == "i"


def tmin(r):
    return -(1 << (bits_of(r) - 1)) if signed(r) else 0


def tmax(r):
    return (1 << (bits_of(r) - 1)) - 1 if signed(r) else (1 << bits_of(r)) - 1


def dmin(r):
    """smallest declarable discriminant"""
    return max(tmin(r), I64MIN)


def dmax(r):
    return min(tmax(r), I64MAX)


def landmarks(r, extra_pow2=False):
    ls = {tmin(r), dmin(r), 0, dmax(r), tmax(r)}
    if extra_pow2:
        for p in (7, 8, 15, 16, 31, 32, 63, 64, 127):
            for v in ((1 << p), -(1 << p)):
                if tmin(r) <= v <= tmax(r):
                    ls.add(v)
    return sorted(ls)


class Proj:
    """clusters: list of (real_lo, real_hi, model_base) ascending"""

    def __init__(self, r, extra_pow2=False):
        self.r = r
        lm = landmarks(r, extra_pow2)
        groups = [[lm[0], lm[0]]]
        for x in lm[1:]:
            if x - groups[-1][1] <= 2 * W + 1:
                groups[-1][1] = x
            else:
                groups.append([x, x])
        spans = [(max(tmin(r), lo - W), min(tmax(r), hi + W)) for lo, hi in groups]
        # model bases: consecutive, then shift so that real 0 maps to model 0
        bases, cur = [], 0
        for lo, hi in spans:
            bases.append(cur)
            cur += (hi - lo) + 1 + GAP
        zero = next(i for i, (lo, hi) in enumerate(spans) if lo <= 0 <= hi)
        shift = bases[zero] + (0 - spans[zero][0])
        self.clusters = [(lo, hi, b - shift) for (lo, hi), b in zip(spans, bases)]
        assert all(abs(b) < 2_000_000_000 for _, _, b in self.clusters)

    def to_model(self, x):
        assert tmin(self.r) <= x <= tmax(self.r)
        last_top = None
        for lo, hi, b in self.clusters:
            if x < lo:
                return b - 1
            if x <= hi:
                return b + (x - lo)
            last_top = b + (hi - lo)
        return last_top + 1

    def to_real(self, m):
        for lo, hi, b in self.clusters:
            if b <= m <= b + (hi - lo):
                return lo + (m - b)
        raise ValueError(f"model coordinate {m} is not inside a window of {self.r}")

    def far_reals(self):
        """one real value in every gap between clusters (inputs of try_from only)"""
        out = []
        for (lo1, hi1, _), (lo2, hi2, _) in zip(self.clusters, self.clusters[1:]):
            out.append((hi1 + lo2) // 2)
        return out

    def key(self, x):
        """the runner's unsigned 128-bit ordering key of a real value"""
        return x + (1 << 127) if signed(self.r) else x

    def bits(self, x):
        """two's complement, sign-extended to 128 bit (the harness ABI for values)"""
        return x & ((1 << 128) - 1)

    def script_lines(self):
        return [f"cl {self.key(lo)} {self.key(hi)} {b}" for lo, hi, b in self.clusters]

    def model_tmin(self):
        return self.to_model(tmin(self.r))

    def model_tmax(self):
        return self.to_model(tmax(self.r))


def selftest():
    import random
    rnd = random.Random(1)
    for extra in (False, True):
        for r in REPRS:
            p = Proj(r, extra)
            pts = set()
            for lo, hi, b in p.clusters:
                for x in (lo, lo + 1, hi - 1, hi, (lo + hi) // 2):
                    if lo <= x <= hi:
                        pts.add(x)
                for _ in range(20):
                    pts.add(rnd.randint(lo, hi))
            for x in pts:
                assert p.to_real(p.to_model(x)) == x, (r, x)
            allp = sorted(pts | set(p.far_reals()) | {tmin(r), tmax(r)})
            ms = [p.to_model(x) for x in allp]
            assert all(a <= b for a, b in zip(ms, ms[1:])), r      # monotone
            ins = sorted(pts)
            mi = [p.to_model(x) for x in ins]
            assert all(a < b for a, b in zip(mi, mi[1:])), r        # strictly monotone inside windows
            for x in ins:                                            # +1 preserved inside a window
                if x + 1 in pts:
                    assert p.to_model(x + 1) == p.to_model(x) + 1
            assert p.to_model(0) == 0
    return True


if __name__ == "__main__":
    selftest()
    for r in REPRS:
        p = Proj(r)
        print(r, p.clusters, p.model_tmin(), p.model_tmax())
