#!/usr/bin/env python3
"""check <Cxx> [--tier quick|thorough] [--replay <file>]

exit 0: the property held on everything explored (KNOWN-FINDING lines possible)
exit 1: at least one line  VIOLATION property=<id> replay=<path>
exit 2: tool error (never a verdict)"""
import os, sys, json, time, hashlib, collections, traceback, re
sys.path.insert(0, os.path.dirname(os.path.abspath(__file__)))
from common import log, load_known, known_match, write_evidence, WORK, VERIF, ToolError

# which engines bear on which property
RT_PROPS = {"C01", "C02", "C03", "C04", "C05", "C06", "C07", "C08", "C09", "C10", "C11", "C15", "C16", "C18", "C19"}
VERDICT_PROPS = {"C10", "C11", "C12", "C13", "C14"}
SURFACE_PROPS = {"C09", "C10", "C15", "C19"}
LEVEL = {p: "model_checking" for p in ["C01", "C02", "C03", "C04", "C05", "C06", "C07", "C08", "C09", "C10", "C11",
                                       "C12", "C13", "C14", "C15", "C18", "C19"]}
LEVEL.update({"C16": "exploration", "C17": "exploration"})


def rt_part(prop, tier, seed):
    """violation groups, coverage and samples contributed by the run-time engine"""
    import engine_rt
    res = engine_rt.results(tier, seed)
    groups = collections.OrderedDict()
    for v in res["violations"]:
        if prop not in v["props"]:
            continue
        c = res["cases"][str(v["case"])]
        facts = {"engine": "rt", "why": v["why"], "item": v["item"], "label": c["label"].split(":")[0] + ":" + c["label"].split(":")[1] if ":" in c["label"] else c["label"],
                 "kind": c["kind"], "repr": c["repr"], "attrs": " ".join(c["attrs"]), "ctx": c["ctx"],
                 "msg": (v["ev"].get("msg") or (v["ev"].get("res") or {}).get("msg") or "")[:160]}
        # one group per (kind of disagreement, item family, normalised message)
        fam = engine_rt.FN_PROP.get(v["item"], v["item"]) if v["why"] != "compile" else v["item"]
        sig = (v["why"], fam if v["why"] != "meta" else "", re.sub(r"\d+", "N", facts["msg"])[:70])
        g = groups.setdefault(sig, {"facts": facts, "count": 0, "cases": {}, "first": v})
        g["count"] += 1
        g["cases"].setdefault(v["case"], c["n"])
        g.setdefault("labels", collections.Counter())[facts["label"]] += 1
        if c["n"] < res["cases"][str(g["first"]["case"])]["n"]:
            g["first"] = v
    cov = res["coverage"].get(prop, {"events": 0, "cases": 0})
    if prop == "C19":
        # the signature ascriptions are compile-time: every case that built has been checked
        built = res["n_cases"] - len(res["failed"])
        cov = {"events": built, "cases": built}
    # samples: up to three cases that bear on the property
    samples = []
    for cid, c in res["cases"].items():
        if len(samples) >= 3:
            break
        if prop in ("C09", "C11", "C15", "C16", "C18") and c["gprop"] != prop:
            continue
        if cid in res["failed"]:
            continue
        samples.append(case_sample(res, cid))
    return res, groups, cov, samples


def case_source(res, cid):
    path, a, b = res["cases"][str(cid)]["src"]
    try:
        lines = open(path).read().split("\n")
        return "\n".join(lines[a:b])
    except OSError:
        return "<source no longer on disk>"


def case_sample(res, cid):
    c = res["cases"][str(cid)]
    src = case_source(res, cid).split("\n")
    decl = [l.strip() for l in src if l.strip()][3:]
    decl = decl[:next((i for i, l in enumerate(decl) if l.startswith("pub mod g")), len(decl)) - 1]
    events = []
    if c.get("trace"):
        try:
            with open(c["trace"][0]) as f:
                for i, ln in enumerate(f, 1):
                    if i >= c["trace"][1]:
                        events.append(ln.strip()[:300])
                    if len(events) >= 6:
                        break
        except OSError:
            pass
    return {"case": int(cid), "label": c["label"], "repr": c["repr"], "group_property": c["gprop"],
            "declaration": decl[:14], "first_events_of_its_trace": events}


def case_script(res, cid):
    """the script lines of one case (header + the block it uses), self-contained"""
    path = res["cases"][str(cid)].get("script")
    try:
        lines = open(path).read().split("\n")
    except (OSError, TypeError):
        return None
    blocks, cur, out, i = {}, None, [], 0
    hdr = []
    take = False
    for ln in lines:
        if ln.startswith("block "):
            cur = ln[6:]
            blocks[cur] = []
        elif ln == "endblock":
            cur = None
        elif cur is not None:
            blocks[cur].append(ln)
        elif ln.startswith("case "):
            take = ln.split(" ")[1] == str(cid)
            if take:
                hdr = [ln]
        elif take:
            if ln.startswith("use "):
                b = ln[4:]
                return ["block " + b] + blocks[b] + ["endblock"] + hdr + [ln]
            hdr.append(ln)
    return None


def case_lib_source(res, cid):
    ls = res["cases"][str(cid)].get("libsrc")
    if not ls:
        return None
    try:
        return "\n".join(open(ls[0]).read().split("\n")[ls[1]:ls[2]])
    except OSError:
        return None


def write_replay(prop, res, g, tier, seed):
    d = os.path.join(WORK, "replay")
    os.makedirs(d, exist_ok=True)
    v = g["first"]
    hsh = hashlib.sha256(json.dumps([prop, g["facts"]], sort_keys=True).encode()).hexdigest()[:10]
    path = os.path.join(d, f"{prop}-{hsh}.json")
    json.dump({"property": prop, "engine": "rt", "tier": tier, "seed": seed, "facts": g["facts"], "occurrences": g["count"],
               "cases": list(g["cases"])[:20], "case": v["case"], "event": v["ev"], "why": v["why"],
               "trace": v["shard"], "trace_line": v["line"], "rust": case_source(res, v["case"]),
               "rust_lib": case_lib_source(res, v["case"]), "script": case_script(res, v["case"]),
               "edition": (re.match(r"edition(\d{4}):", res["cases"][str(v["case"])]["label"]) or [None, "2021"])[1],
               "how": "the event at trace_line of trace (recorded from the case above, built from /repo) is not allowed by "
                      "spec/TraceRt.tla; re-run:  /verif/check %s --replay %s" % (prop, path)},
              open(path, "w"), indent=1)
    return path


def main():
    args = sys.argv[1:]
    if not args:
        print(__doc__)
        return 2
    prop = args[0]
    tier = os.environ.get("VERIF_TIER", "quick")
    replay = None
    i = 1
    while i < len(args):
        if args[i] == "--tier":
            tier = args[i + 1]
            i += 2
        elif args[i] == "--replay":
            replay = args[i + 1]
            i += 2
        else:
            i += 1
    seed = int(os.environ.get("VERIF_SEED", "0"))
    t0 = time.time()
    known = load_known()
    if replay:
        import replay as rp
        return rp.run(prop, replay)
    viol_lines, known_lines = [], []
    coverage = {"states": 0, "transitions": 0, "traces_validated_against_impl": 0, "samples": [], "evaluations": 0,
                "distinct_nontrivial": 0, "engines": {}}
    nviol = 0
    assumptions = []
    if prop in RT_PROPS:
        res, groups, cov, samples = rt_part(prop, tier, seed)
        coverage["states"] += res["tlc"]["stimuli"]["states"] + res["tlc"]["judge"]["states"]
        coverage["transitions"] += res["tlc"]["stimuli"]["transitions"] + res["tlc"]["judge"]["transitions"]
        coverage["traces_validated_against_impl"] += cov["cases"]
        coverage["evaluations"] += cov["events"]
        coverage["distinct_nontrivial"] += cov["cases"]
        coverage["samples"] += samples
        coverage["engines"]["rt"] = {"cases": res["n_cases"], "groups": res["n_groups"], "events_total": res["events"],
                                     "events_for_property": cov["events"], "cases_for_property": cov["cases"],
                                     "case_kinds": res["kinds"], "compile_failures": len(res["failed"]),
                                     "aborted_calls": res["aborts"], "miri": res.get("miri"), "optimised_build": res.get("release"), "tlc": res["tlc"], "wall_s": res.get("engine_wall_s")}
        for sig, g in groups.items():
            k = known_match(prop, g["facts"], known)
            labels = ", ".join(f"{k} x{n}" for k, n in g["labels"].most_common(6))
            what = f"{g['facts']['why']} {g['facts']['item']}: {g['count']} events in {len(g['cases'])} cases ({labels}); e.g. case {g['first']['case']} {g['facts']['repr']} {g['facts']['msg'][:100]}"
            if k:
                known_lines.append(f"KNOWN-FINDING: property={prop} {k.get('what', '')} ({what})")
            else:
                path = write_replay(prop, res, g, tier, seed)
                viol_lines.append((f"VIOLATION property={prop} replay={path}", what))
                nviol += 1
        assumptions += ["the harness runner (harness/rt), the case renderer and the projection of repr values to model coordinates are correct (round-trip tested by setup)",
                        "discriminants in decl events are what rustc assigned (`V as repr`), names are the declaration text",
                        "coverage is the enumerated small scope + seeded samples described in DESIGN.md section 5, not all enums"]
    if prop in VERDICT_PROPS:
        import engine_verdict
        res = engine_verdict.results(tier, seed)
        n = res["coverage"].get(prop, 0)
        coverage["states"] += res["tlc"]["stimuli"]["states"] + res["tlc"]["judge"]["states"]
        coverage["transitions"] += res["tlc"]["stimuli"]["transitions"] + res["tlc"]["judge"]["transitions"]
        coverage["traces_validated_against_impl"] += n
        coverage["evaluations"] += n
        coverage["distinct_nontrivial"] += n
        coverage["samples"] += res["samples"].get(prop, [])
        coverage["engines"]["verdict"] = {"cases_total": res["n_cases"], "cases_for_property": n, "rejected_total": res["rejected"],
                                          "control_builds_failed": res["control_failed"], "case_classes": res["notes"].get(prop, {}),
                                          "pipeline_trace_vs_Resolve_tla": res.get("pipeline_trace"),
                                          "tlc": res["tlc"], "wall_s": res.get("engine_wall_s")}
        groups = collections.OrderedDict()
        for v in res["violations"]:
            if prop not in v["props"]:
                continue
            facts = {"engine": "verdict", "why": v["why"], "note": v["note"], "attrs": v["attrs"], "repr": v["repr"],
                     "msg": v["msg"], "item": v["note"], "label": v["note"]}
            # one group per (direction, case class, message, and for configurations the offending attribute text class)
            sig = (v["why"], v["note"], re.sub(r"\d+", "N", v["msg"])[:60])
            g = groups.setdefault(sig, {"facts": facts, "count": 0, "first": v, "cases": []})
            g["count"] += 1
            g["cases"].append(v["case"])
        # a known finding must match EVERY violation of its group, so match per violation
        for sig, g in groups.items():
            unknown = []
            kn = {}
            for v in res["violations"]:
                if prop not in v["props"] or (v["why"], v["note"], re.sub(r"\d+", "N", v["msg"])[:60]) != sig:
                    continue
                f = {"engine": "verdict", "why": v["why"], "note": v["note"], "attrs": v["attrs"], "repr": v["repr"], "msg": v["msg"]}
                k = known_match(prop, f, known)
                if k:
                    kn.setdefault(k.get("what", ""), 0)
                    kn[k.get("what", "")] += 1
                else:
                    unknown.append(v)
            for what, cnt in kn.items():
                known_lines.append(f"KNOWN-FINDING: property={prop} {what} ({cnt} cases)")
            if unknown:
                v = unknown[0]
                d = os.path.join(WORK, "replay")
                os.makedirs(d, exist_ok=True)
                hsh = hashlib.sha256(json.dumps([prop, sig]).encode()).hexdigest()[:10]
                path = os.path.join(d, f"{prop}-{hsh}.json")
                json.dump({"property": prop, "engine": "verdict", "tier": tier, "seed": seed, "why": v["why"], "note": v["note"],
                           "msg": v["msg"], "occurrences": len(unknown), "cases": [x["case"] for x in unknown][:20], "rust": v["rust"],
                           "profile": v.get("profile", "dev"),
                           "how": "the item above (rendered from the TLC-generated case) was %s by rustc with the derive from /repo, "
                                  "the documented catalogue (spec/Decl.tla, spec/Attr.tla) says the opposite" % v["why"]},
                          open(path, "w"), indent=1)
                viol_lines.append((f"VIOLATION property={prop} replay={path}",
                                   f"{v['why']} ({len(unknown)} cases): {v['note']}: {v['msg'][:100]} e.g. {v['attrs'][:160]}"))
                nviol += 1
        assumptions += ["the case renderer (tools/render_verdict.py) renders the abstract case faithfully; guarded by the control build of every case without the derive, whose outcome the specification predicts",
                        "C12/C13 quantify over syntax: the fault catalogues in spec/Verdict.tla and spec/Attr.tla are finite samples"]
    if prop in SURFACE_PROPS:
        import engine_surface
        res = engine_surface.results(tier, seed)
        n = res["n_cases"]
        coverage["states"] += res["tlc"]["stimuli"]["states"] + res["tlc"]["judge"]["states"]
        coverage["transitions"] += res["tlc"]["stimuli"]["transitions"] + res["tlc"]["judge"]["transitions"]
        coverage["traces_validated_against_impl"] += n
        coverage["evaluations"] += n
        coverage["distinct_nontrivial"] += n
        coverage["samples"] += res["samples"]
        coverage["engines"]["surface"] = {"cases": n, "not_built": res["not_built"], "tlc": res["tlc"], "wall_s": res.get("engine_wall_s")}
        groups = collections.OrderedDict()
        for v in res["violations"]:
            # the surface specification decides name / visibility / kind (C15) and const-ness (documented signature, C19)
            if prop not in v["props"] and not (prop == "C19" and "C15" in v["props"] and "const" in v["why"]):
                continue
            g = groups.setdefault(v["why"], {"count": 0, "first": v})
            g["count"] += 1
        for why, g in groups.items():
            v = g["first"]
            facts = {"engine": "surface", "why": why, "attrs": v["attrs"], "enumvis": v["enumvis"], "msg": v["msg"]}
            k = known_match(prop, facts, known)
            if k:
                known_lines.append(f"KNOWN-FINDING: property={prop} {k.get('what', '')} ({g['count']} cases)")
                continue
            d = os.path.join(WORK, "replay")
            os.makedirs(d, exist_ok=True)
            hsh = hashlib.sha256(json.dumps([prop, why]).encode()).hexdigest()[:10]
            path = os.path.join(d, f"{prop}-{hsh}.json")
            json.dump({"property": prop, "engine": "surface", "why": why, "occurrences": g["count"], "rust": v["rust"],
                       "enum_visibility": v["enumvis"], "observed_by_rustdoc": v["observed"],
                       "how": "rustdoc JSON of the item above (derive from /repo) does not satisfy Surface!SurfaceOK (spec/Surface.tla)"},
                      open(path, "w"), indent=1)
            viol_lines.append((f"VIOLATION property={prop} replay={path}", f"{why} ({g['count']} cases) e.g. [{v['enumvis']}] {v['attrs'][:160]}"))
            nviol += 1
        assumptions += ["rustdoc JSON (format 57, RUSTC_BOOTSTRAP=1 on the pinned stable toolchain) reports every item, visibility, const-ness and trait impl faithfully"]
    if prop == "C17":
        import engine_expand
        res = engine_expand.results(tier, seed)
        n = res["n_cases"] * res["processes"]
        coverage["states"] += res["tlc"]["judge"]["states"]
        coverage["transitions"] += res["tlc"]["judge"]["transitions"]
        coverage["traces_validated_against_impl"] += res["n_cases"]
        coverage["evaluations"] += n
        coverage["distinct_nontrivial"] += res["distinct"]
        coverage["samples"] += res["samples"]
        coverage["engines"]["expand"] = {"cases": res["n_cases"], "fresh_compiler_processes_per_case": res["processes"], "tlc": res["tlc"],
                                         "wall_s": res.get("engine_wall_s")}
        if res["violations"]:
            v = min(res["violations"], key=lambda x: x["n"])
            facts = {"engine": "expand", "attrs": v["attrs"], "repr": v["repr"]}
            k = known_match(prop, facts, known)
            if k:
                known_lines.append(f"KNOWN-FINDING: property={prop} {k.get('what', '')}")
            else:
                d = os.path.join(WORK, "replay")
                os.makedirs(d, exist_ok=True)
                path = os.path.join(d, f"{prop}-expansion.json")
                json.dump({"property": prop, "engine": "expand", "occurrences": len(res["violations"]), "rust": v["rust"], "digests": v["digests"],
                           "cases": [x["case"] for x in res["violations"]][:30],
                           "how": "RUSTC_BOOTSTRAP=1 rustc -Zunpretty=expanded of the item above in %d fresh processes gives different code" % res["processes"]},
                          open(path, "w"), indent=1)
                viol_lines.append((f"VIOLATION property={prop} replay={path}",
                                   f"{len(res['violations'])} of {res['n_cases']} declarations expand differently in different compiler processes, e.g. {v['n']} variants {v['attrs'][:120]}"))
                nviol += 1
        assumptions += ["a dependence on per-process state shows up as different output among 8 (quick) / 32 (thorough) fresh rustc processes; a dependence that needs a rarer trigger is not seen",
                        "digest of the -Zunpretty=expanded text per case module"]
    # design-level model checks of the implementation-shaped specifications (never a verdict on the code)
    import models
    ms = models.for_property(prop, tier)
    if ms:
        coverage["design_models"] = ms
        coverage["states"] += sum(m["states"] for m in ms)
        coverage["transitions"] += sum(m["transitions"] for m in ms)
    pf = models.proofs_for(prop)
    if pf:
        coverage["tlaps_proofs"] = pf      # unbounded companions of TLC-checked theorems (spec/proofs), design level as well
    coverage["rule"] = ("cases = derived enums (declaration x configuration) generated from TLC-enumerated discriminant sets and TLC state-graph "
                        "operation paths; one trace per case, validated event by event by TLC against spec/TraceRt.tla; "
                        "distinct_nontrivial = number of distinct cases with at least one event bearing on this property")
    coverage["checker_cmd"] = f"/verif/check {prop} --tier {tier}"
    coverage["exhaustive"] = False
    for l in known_lines:
        print(l)
    for l, what in viol_lines:
        print(l)
        print("  " + what)
    write_evidence(prop, tier, seed, LEVEL.get(prop, "model_checking"), coverage, assumptions, time.time() - t0, nviol)
    log(f"{prop} {tier}: {nviol} violation groups, {len(known_lines)} known, {time.time() - t0:.1f}s")
    return 1 if nviol else 0


if __name__ == "__main__":
    try:
        sys.exit(main())
    except ToolError as e:
        print("TOOL-ERROR:", e, file=sys.stderr)
        sys.exit(2)
    except Exception:
        traceback.print_exc()
        sys.exit(2)
