"""Running TLC (model checking, stimulus generation, trace validation) and reading its output."""
import os, re, shutil, subprocess, tempfile, time, json, hashlib

VERIF = os.path.dirname(os.path.dirname(os.path.abspath(__file__)))
SPEC = os.path.join(VERIF, "spec")
WORK = os.environ.get("VERIF_WORK", os.path.join(VERIF, "work"))


class ToolError(Exception):
    pass


_SPEC_DIGEST = []


def spec_digest():
    if _SPEC_DIGEST:            # (the specification does not change while a check runs)
        return _SPEC_DIGEST[0]
    _SPEC_DIGEST.append(_spec_digest())
    return _SPEC_DIGEST[0]


def _spec_digest():
    h = hashlib.sha256()
    for f in sorted(os.listdir(SPEC)):
        if f.endswith((".tla", ".cfg")):
            h.update(f.encode())
            h.update(open(os.path.join(SPEC, f), "rb").read())
    pd = os.path.join(SPEC, "proofs")
    for f in sorted(os.listdir(pd)) if os.path.isdir(pd) else []:
        if f.endswith(".tla"):
            h.update(b"proofs/" + f.encode())
            h.update(open(os.path.join(pd, f), "rb").read())
    return h.hexdigest()[:16]


def run_tlc(rundir, module, cfg=None, workers=1, extra=(), env_extra=None, timeout=1800, xmx="4g", deque=False):
    """Run TLC on rundir/module.tla (spec/*.tla are copied next to it). Returns (stdout, stats)."""
    os.makedirs(rundir, exist_ok=True)
    for f in os.listdir(SPEC):
        if f.endswith(".tla") or f.endswith(".cfg"):
            dst = os.path.join(rundir, f)
            if not os.path.exists(dst) or open(dst, "rb").read() != open(os.path.join(SPEC, f), "rb").read():
                shutil.copy(os.path.join(SPEC, f), dst)
    meta = tempfile.mkdtemp(prefix="meta_", dir=rundir)
    env = dict(os.environ)
    jopts = "-Xss1g"
    if deque:
        jopts += " -Dtlc2.tool.queue.IStateQueue=StateDeque"
    env["JAVA_TOOL_OPTIONS"] = jopts
    if env_extra:
        env.update(env_extra)
    cmd = ["timeout", str(timeout), "java", f"-Xmx{xmx}", "-XX:+UseSerialGC", "-XX:CICompilerCount=2", "-XX:TieredStopAtLevel=4", "-cp", tla_classpath(), "tlc2.TLC",
           "-workers", str(workers), "-metadir", meta, "-cleanup", "-noGenerateSpecTE"]
    if cfg:
        cmd += ["-config", cfg]
    cmd += list(extra) + [module]
    t0 = time.time()
    p = subprocess.run(cmd, cwd=rundir, env=env, stdout=subprocess.PIPE, stderr=subprocess.STDOUT, text=True)
    shutil.rmtree(meta, ignore_errors=True)
    out = p.stdout
    stats = {"wall_s": round(time.time() - t0, 2), "rc": p.returncode, "states": 0, "distinct": 0}
    m = re.findall(r"(\d+) states generated, (\d+) distinct states found", out)
    if m:
        stats["states"], stats["distinct"] = int(m[-1][0]), int(m[-1][1])
    return out, stats


_CP = None


def tla_classpath():
    global _CP
    if _CP is None:
        base = "/opt/veriftools/tla"
        jars = [os.path.join(base, f) for f in sorted(os.listdir(base)) if f.endswith(".jar")]
        # tla2tools first
        jars.sort(key=lambda j: (0 if "tla2tools" in j else 1, j))
        _CP = ":".join(jars)
    return _CP


def atomic_dump(obj, path):
    """caches are shared by concurrently running checks: write them atomically"""
    tmp = f"{path}.{os.getpid()}.tmp"
    with open(tmp, "w") as f:
        json.dump(obj, f)
    os.replace(tmp, path)


def tlc_ok(out):
    return "Model checking completed. No error has been found." in out


def printed(out, tag):
    """JSON payloads of PrintT(<<tag, ToJson(x)>>) lines."""
    res = []
    pat = re.compile(r'^<<"' + re.escape(tag) + r'", "(.*)">>$')
    for line in out.splitlines():
        m = pat.match(line)
        if m:
            s = m.group(1)
            # TLC prints the string with TLA+ escapes: \" and \\
            s = s.replace('\\"', '"').replace("\\\\", "\\")
            res.append(json.loads(s))
    return res
