"""Build the run-time corpus crate from /repo's working tree, attribute compile errors to cases,
run the corpus binaries (restarting after aborts) and assemble the traces."""
import os, json, subprocess, re, time, shutil
from concurrent.futures import ThreadPoolExecutor
from tlc import ToolError, WORK

TARGET = os.path.join(WORK, "target-rt")


def cargo_env():
    env = dict(os.environ)
    env["CARGO_TARGET_DIR"] = TARGET
    env["CARGO_NET_OFFLINE"] = "true"
    env.pop("RUSTFLAGS", None)
    return env


def cargo_json(crate, args, jobs=16, extra_env=None):
    cmd = ["cargo", "build", "--offline", "--keep-going", "--message-format=json", f"-j{jobs}"] + args
    env = cargo_env()
    if extra_env:
        env.update(extra_env)
    p = subprocess.run(cmd, cwd=crate, env=env, stdout=subprocess.PIPE, stderr=subprocess.PIPE, text=True)
    msgs = []
    for line in p.stdout.splitlines():
        if line.startswith("{"):
            try:
                msgs.append(json.loads(line))
            except json.JSONDecodeError:
                pass
    return p.returncode, msgs, p.stderr


def errors_of(msgs):
    """[(file, line, message, code)] for every error diagnostic; line = primary span (outermost expansion site in the file)"""
    out = []
    for m in msgs:
        if m.get("reason") != "compiler-message":
            continue
        d = m["message"]
        if d.get("level") != "error":
            continue
        if d["message"].startswith("aborting due to") or d["message"].startswith("could not compile"):
            continue
        spans = [s for s in d.get("spans", []) if s.get("is_primary")] or d.get("spans", [])
        if not spans:
            out.append((None, 0, d["message"], None))
            continue
        for s in spans[:1]:
            # walk out of macro expansions to the site inside the corpus file
            t = s
            while t.get("expansion") and not t["file_name"].startswith("src/"):
                t = t["expansion"]["span"]
            out.append((t["file_name"], t["line_start"], d["message"], (d.get("code") or {}).get("code")))
    return out


def build_corpus(crate, meta, log, profile_args=()):
    """returns {case_id: {"where", "msg"}} of cases that do not compile; leaves the bins built without them"""
    failed = {}
    by_file = {b["src"]: b for b in meta["bins"]}
    for rnd in range(40):      # a fatal error (e.g. recursion limit) hides all later ones: one case per round then
        t0 = time.time()
        rc, msgs, err = cargo_json(crate, ["--bins"] + list(profile_args))
        errs = errors_of(msgs)
        log(f"build round {rnd}: rc={rc} errors={len(errs)} {time.time() - t0:.1f}s")
        if rc == 0 and not errs:
            return failed
        if not errs:
            raise ToolError("cargo build failed without attributable diagnostics:\n" + err[-3000:])
        newfail = {}
        for f, line, msg, code in errs:
            if f == meta.get("lib", {}).get("src"):
                # a declaration in the #![no_std] library of the package
                lc = next((c for c in meta["lib"]["cases"] if c["start"] < line <= c["end"]), None)
                if lc is None:
                    raise ToolError(f"compile error outside a case module: {f}:{line}: {msg}")
                b = next(b for b in meta["bins"] if any(c["id"] == lc["id"] for c in b["cases"]))
                newfail.setdefault(lc["id"], {"where": "decl", "msg": msg, "code": code, "bin": b["name"]}).update({"where": "decl"})
                continue
            b = by_file.get(f)
            if b is None:
                raise ToolError(f"compile error outside the corpus cases: {f}:{line}: {msg}")
            c = next((c for c in b["cases"] if c["start"] < line <= c["end"]), None)
            if c is None:
                raise ToolError(f"compile error outside a case module: {f}:{line}: {msg}")
            where = "decl" if c["decl"][0] < line <= c["decl"][1] else "glue"
            e = newfail.setdefault(c["id"], {"where": where, "msg": msg, "code": code, "bin": b["name"]})
            if where == "decl" and e["where"] != "decl":
                e.update({"where": "decl", "msg": msg, "code": code})
        # stub the failing cases out (line numbers stay stable)
        for b in meta["bins"]:
            ids = [c for c in b["cases"] if c["id"] in newfail]
            if not ids:
                continue
            path = os.path.join(crate, b["src"])
            lines = open(path).read().split("\n")
            for c in ids:
                for i in range(c["start"], c["end"]):
                    lines[i] = "// removed: does not compile"
                for i in range(b["main_line"], len(lines)):
                    if lines[i].strip() == f"c{c['id']}::g::case,":
                        lines[i] = "    // removed"
            open(path, "w").write("\n".join(lines))
        libids = [c for c in meta.get("lib", {}).get("cases", []) if c["id"] in newfail]
        if libids:
            path = os.path.join(crate, meta["lib"]["src"])
            lines = open(path).read().split("\n")
            for c in libids:
                for i in range(c["start"], c["end"]):
                    lines[i] = "// removed: does not compile"
            open(path, "w").write("\n".join(lines))
        failed.update(newfail)
    raise ToolError("corpus build did not converge")


def bare_retry(crate, meta, failed, cases_by_id, log):
    """For cases whose declaration does not compile: does the same declaration compile with the derive
    but without any feature?  (yes -> the configuration is to blame, no -> the declaration)"""
    import render
    ids = [i for i, e in failed.items() if e["where"] == "decl"]
    for i in failed:
        failed[i]["bare_ok"] = True
    if not ids:
        return
    bare = os.path.join(crate, "bare")
    if os.path.exists(bare):
        shutil.rmtree(bare)
    os.makedirs(os.path.join(bare, "src"))
    os.makedirs(os.path.join(bare, ".cargo"))
    shutil.copy(os.path.join(crate, "Cargo.lock"), os.path.join(bare, "Cargo.lock"))
    shutil.copy(os.path.join(crate, ".cargo", "config.toml"), os.path.join(bare, ".cargo", "config.toml"))
    open(os.path.join(bare, "Cargo.toml"), "w").write(
        "[package]\nname = \"rtbare\"\nversion = \"0.0.0\"\nedition = \"2021\"\n[dependencies]\nenum-tools = { path = \"%s\" }\n[workspace]\n"
        "[profile.dev]\ndebug = false\nincremental = false\n[profile.dev.build-override]\nopt-level = 1\ndebug = false\n" % os.environ.get("VERIF_REPO", "/repo"))
    remaining = list(ids)
    for rnd in range(4):
        src, spans = ["#![allow(warnings)]"], []
        for i in remaining:
            c = dict(cases_by_id[i])
            c["cfg"] = {"feats": [], "split": "one"}
            start = len(src)
            src.append(f"pub mod c{i} {{ use ::enum_tools::EnumTools;")
            src += render.decl_lines(c)
            src.append("}")
            spans.append((i, start, len(src)))
        open(os.path.join(bare, "src", "lib.rs"), "w").write("\n".join(src) + "\n")
        rc, msgs, err = cargo_json(bare, ["--lib"])
        errs = errors_of(msgs)
        bad = set()
        for f, line, msg, code in errs:
            hit = next((i for i, a, b in spans if a < line <= b), None)
            if hit is None:
                raise ToolError(f"bare build: unattributed error {f}:{line}: {msg}")
            bad.add(hit)
            failed[hit]["bare_msg"] = msg
        for i in bad:
            failed[i]["bare_ok"] = False
        if rc == 0 or not bad:
            if rc != 0:
                raise ToolError("bare build failed without diagnostics:\n" + err[-2000:])
            break
        remaining = [i for i in remaining if i not in bad]
        if not remaining:
            break
    log(f"bare retry: {len(ids)} cases, {sum(1 for i in ids if not failed[i]['bare_ok'])} fail bare")


def run_bin(exe, script, trace, timeout=600, runner=None, cwd=None, env=None):
    """run one corpus binary to completion, restarting after aborts. returns number of aborts"""
    if os.path.exists(trace):
        os.remove(trace)
    resume, aborts, timeouts = None, 0, 0
    # a native corpus binary runs under an address-space limit: code under test that allocates without bound (collect on
    # an iterator that never ends) fails its allocation and aborts instead of exhausting the machine
    wrap = ["prlimit", "--as=%d" % (6 << 30)] if runner is None and shutil.which("prlimit") else []
    while True:
        args = wrap + (runner or [exe]) + [script, trace] + ([str(resume[0]), str(resume[1])] if resume else [])
        try:
            p = subprocess.run(args, stdout=subprocess.PIPE, stderr=subprocess.PIPE, text=True, timeout=timeout, errors="replace",
                               env=dict(env or os.environ, RUST_BACKTRACE="0"), cwd=cwd)
            rc, err = p.returncode, p.stderr
        except subprocess.TimeoutExpired as e:
            rc, err = -9, "timeout: " + ((e.stderr or b"").decode("utf8", "replace") if isinstance(e.stderr, bytes) else (e.stderr or ""))
        if "RT-FATAL: rt:" in err:
            raise ToolError(f"runner error in {exe}: {err[-2000:]}")
        if rc == 0:
            return aborts
        data = open(trace, "rb").read() if os.path.exists(trace) else b""
        nl = data.rfind(b"\n")
        tail = data[nl + 1:].decode()
        if not tail:
            raise ToolError(f"{exe} died (rc={rc}) outside a call: {err[-2000:]}")
        m = re.search(r'"case":(\d+),"step":(\d+)', tail)
        if not m:
            raise ToolError(f"{exe}: cannot parse dangling event {tail!r}")
        msg = [l for l in err.splitlines() if l.strip() and not l.lstrip().startswith(("Compiling", "Finished", "Running", "warning"))][:3]
        # rustc's UB checks (debug builds) and Miri report undefined behaviour and abort; any other
        # death (allocation failure, stack overflow, timeout) is an abnormal result but not UB
        ubmarks = ("unsafe precondition(s) violated", "trying to construct an enum from an invalid value",
                   "Undefined Behavior", "misaligned pointer dereference", "null pointer dereference")
        kind = "ub" if any(u in err for u in ubmarks) else "abort"
        with open(trace, "ab") as f:
            f.write(('"res":{"k":"%s","msg":%s}}\n' % (kind, json.dumps(" | ".join(msg)[:300]))).encode())
        resume = (int(m.group(1)), int(m.group(2)) + 1)
        aborts += 1
        if "RT-TIMEOUT" in err or rc == -9:
            timeouts += 1
        if aborts > 400 or timeouts > 12 or (rc == -9 and runner is not None):
            # (an interpreted binary that ran into the process timeout is not restarted: one such stall is evidence enough)
            # a tree that dies in hundreds of calls has been shown broken many times over: the rest of this binary's
            # script is not executed (its cases simply contribute fewer events)
            return aborts


SIG_RE = re.compile(r'"sig":"([^"]*)"')


def assemble(crate, meta, failed, outdir, max_events=40000):
    """final traces: per-case segments in corpus order, compile_fail events where a case did not build;
    cut into shards of at most max_events events at group boundaries (a group is never split)"""
    os.makedirs(outdir, exist_ok=True)
    shards = []
    state = {"f": None, "n": 0, "k": 0}

    def new_shard():
        if state["f"]:
            state["f"].close()
            shards[-1]["events"] = state["n"]
        path = os.path.join(outdir, f"shard{state['k']:03d}.ndjson")
        state["k"] += 1
        state["f"] = open(path, "w")
        state["n"] = 0
        shards.append({"trace": path, "events": 0, "cases": 0})

    new_shard()
    for b in meta["bins"]:
        raw = os.path.join(outdir, b["name"] + ".raw")
        segs, cur = {}, None
        if os.path.exists(raw):
            with open(raw) as f:
                for line in f:
                    if line.startswith('{"ev":"decl"'):
                        cur = int(re.match(r'\{"ev":"decl","case":(\d+)', line).group(1))
                        segs[cur] = []
                    segs[cur].append(line)
        groups = []
        for c in b["cases"]:
            # (the members of a group without a group property are not compared with each other: a shard may end between them)
            if not groups or groups[-1][0] != c["grp"] or not c["gprop"]:
                groups.append((c["grp"], []))
            groups[-1][1].append(c)
        for grp, cs in groups:
            size = sum(1 if c["id"] in failed else len(segs.get(c["id"], [])) for c in cs)
            if state["n"] > 0 and state["n"] + size > max_events:
                new_shard()
            seen = {}
            for c in cs:
                if c["id"] in failed:
                    e = failed[c["id"]]
                    state["f"].write(json.dumps({"ev": "compile_fail", "case": c["id"], "grp": c["grp"], "gprop": c["gprop"],
                                                 "where": e["where"], "bare_ok": bool(e.get("bare_ok", True)),
                                                 "msg": e["msg"][:200]}) + "\n")
                    state["n"] += 1
                    shards[-1]["cases"] += 1
                elif c["id"] in segs:
                    shards[-1].setdefault("first_line", {})[c["id"]] = state["n"] + 1
                    # ref = line (in this shard) of the first event of this group with the same sig
                    for line in segs[c["id"]]:
                        state["n"] += 1
                        m = SIG_RE.search(line, 0, 120)
                        if m:
                            ref = seen.setdefault(m.group(1), state["n"])
                            line = '{"ref":%d,' % (0 if ref == state["n"] else ref) + line[1:]
                        state["f"].write(line)
                    shards[-1]["cases"] += 1
    state["f"].close()
    shards[-1]["events"] = state["n"]
    return [s for s in shards if s["events"] > 0]


def miri_run(crate, meta, outdir, log=print, jobs=8):
    """execute every binary of a (small) corpus crate under Miri; returns (shards, aborts).  A case that does not
    build under Miri is a tool error: the Miri corpus consists of shapes that the main corpus has already built."""
    # cases that do not compile on this tree become compile_fail events like in the main corpus
    # (ordinary stable build, attribution by line); only the binaries that build are interpreted
    failed = build_corpus(crate, meta, log)
    for i in failed:
        failed[i]["bare_ok"] = True
    env = cargo_env()
    env["CARGO_TARGET_DIR"] = os.path.join(WORK, "target-miri")
    env["MIRIFLAGS"] = "-Zmiri-disable-isolation"
    env["RT_STEP_TIMEOUT"] = "900"        # the interpreter is two orders of magnitude slower
    os.makedirs(outdir, exist_ok=True)
    t0 = time.time()
    live = [b for b in meta["bins"] if any(c["id"] not in failed for c in b["cases"])]
    # build once (first binary), then run all in parallel
    def one(b):
        return run_bin(None, os.path.join(crate, b["script"]), os.path.join(outdir, b["name"] + ".raw"), timeout=900,
                       runner=["cargo", "+nightly", "miri", "run", "--offline", "-q", "--bin", b["name"], "--"], cwd=crate, env=env)
    aborts = 0
    if live:
        aborts = one(live[0])
        with ThreadPoolExecutor(jobs) as ex:
            aborts += sum(ex.map(one, live[1:]))
    log(f"miri: ran {len(live)} bins in {time.time() - t0:.1f}s, {aborts} aborts, {len(failed)} cases do not build")
    shards = assemble(crate, meta, failed, outdir)
    return shards, aborts


def release_run(crate, meta, outdir, log=print, jobs=8):
    """the same small corpus built with optimisations and WITHOUT debug assertions / overflow checks: results must still be
    what the contract says (an optimiser may exploit undefined behaviour that the debug checks do not see)"""
    failed = build_corpus(crate, meta, log, profile_args=["--release"])
    for i in failed:
        failed[i]["bare_ok"] = True
    os.makedirs(outdir, exist_ok=True)
    t0 = time.time()

    def one(b):
        if all(c["id"] in failed for c in b["cases"]):
            return 0
        return run_bin(os.path.join(TARGET, "release", b["name"]), os.path.join(crate, b["script"]), os.path.join(outdir, b["name"] + ".raw"))
    with ThreadPoolExecutor(jobs) as ex:
        aborts = sum(ex.map(one, meta["bins"]))
    log(f"release: ran {len(meta['bins'])} optimised bins in {time.time() - t0:.1f}s, {aborts} aborts")
    return assemble(crate, meta, failed, outdir), aborts


def build_and_run(crate, meta, cases_by_id, outdir, log=print, jobs=16):
    failed = build_corpus(crate, meta, log)
    bare_retry(crate, meta, failed, cases_by_id, log)
    os.makedirs(outdir, exist_ok=True)
    t0 = time.time()

    def one(b):
        live = [c for c in b["cases"] if c["id"] not in failed]
        if not live:
            return 0
        exe = os.path.join(TARGET, "debug", b["name"])
        return run_bin(exe, os.path.join(crate, b["script"]), os.path.join(outdir, b["name"] + ".raw"))
    with ThreadPoolExecutor(jobs) as ex:
        aborts = sum(ex.map(one, meta["bins"]))
    log(f"ran {len(meta['bins'])} bins in {time.time() - t0:.1f}s, {aborts} aborts")
    shards = assemble(crate, meta, failed, outdir)
    return failed, shards, aborts
