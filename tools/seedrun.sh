#!/bin/sh
# usage: seedrun.sh <workdir> <seed ids...>   (run from a snapshot of /verif)
W=$1; shift
export SEED_WORK=$W
for s in "$@"; do
  nice -n 5 python3 tools/seedtest.py /verif/seeded/$s $s
done
rm -rf $W
