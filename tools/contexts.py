"""Hostile scope contexts for C16: text placed at the top of the module in which the enum is declared.
Every context keeps the derive's own requirements available (the derive list uses absolute ::core paths)."""

TYPES = ["Option", "Some", "None", "Result", "Ok", "Err", "Iterator", "IntoIterator", "DoubleEndedIterator",
         "ExactSizeIterator", "FusedIterator", "From", "Into", "TryFrom", "TryInto", "FromStr", "Copy", "Clone", "Sized",
         "FnMut", "Fn", "FnOnce", "Debug", "Display", "Formatter", "Vec", "String", "Box", "Default", "Map", "Copied",
         "RangeInclusive", "Range", "MaybeUninit", "Self_", "Iter", "IntoIter", "Error", "Item", "Ordering", "PartialEq", "Eq",
         "PartialOrd", "Ord", "Send", "Sync", "Drop", "ToString", "AsRef", "Extend", "Rev", "Zip", "Enumerate"]
MODS = ["core", "std", "alloc", "mem", "option", "result", "iter", "fmt", "convert", "marker", "ops", "slice", "array", "str", "clone", "cmp"]
MACROS = ["panic", "unreachable", "matches", "assert", "assert_eq", "assert_ne", "debug_assert", "debug_assert_eq", "write", "writeln",
          "format_args", "format", "vec", "todo", "unimplemented", "concat", "stringify", "line", "column", "file", "cfg", "env",
          "include_str", "print", "println", "eprintln", "dbg", "try_", "r#try"]
FNS = ["transmute", "drop", "from", "into", "try_from", "from_str", "next", "next_back", "iter", "copied", "map", "find", "contains",
       "unwrap_unchecked", "assume_init", "write", "len", "size_hint", "nth", "fold", "default", "clone", "identity", "zip", "enumerate"]


def ctx_types():
    return [f"#[allow(non_camel_case_types, dead_code)] pub struct {t};" for t in TYPES if t not in ("Self_",)]


def ctx_traits():
    return [f"#[allow(dead_code)] pub trait {t} {{ fn hostile(&self) {{}} }}" for t in TYPES if t not in ("Some", "None", "Ok", "Err", "Self_")]


def ctx_mods():
    return [f"#[allow(dead_code)] pub mod {m} {{ pub struct Hostile; }}" for m in MODS]


def ctx_macros():
    # (compile_error! itself is not shadowed: the hostile macros expand to it)
    out = []
    for m in MACROS:
        if m in ("try_",):
            continue
        out.append(f"#[allow(unused_macros)] macro_rules! {m} {{ ($($t:tt)*) => {{ compile_error!(\"hostile macro {m.replace('#', '')} was used by generated code\") }} }}")
    return out


def ctx_values():
    out = [f"#[allow(non_upper_case_globals, dead_code)] pub const {c}: u8 = 0;" for c in ("None", "Default")]
    out += [f"#[allow(non_snake_case, dead_code)] pub fn {f}(_x: u8) -> u8 {{ 0 }}" for f in ("Some", "Ok", "Err")]
    out += [f"#[allow(dead_code)] pub fn {f}() {{}}" for f in FNS]
    return out


def ctx_consts():
    # associated-looking names a sloppy expansion might reference unqualified
    return [f"#[allow(non_upper_case_globals, dead_code)] pub const {c}: () = ();" for c in ("MIN", "MAX", "__MIN", "__MAX", "__NAME", "__ENUM", "__RANGES")]


def ctx_siblings():
    # other enums with the derive in the SAME module: whatever the derive emits at module level (helper structs, consts,
    # statics) must not collide between two invocations, and an expansion must not depend on the one before it
    d = "#[derive(::core::clone::Clone, ::core::marker::Copy, ::enum_tools::EnumTools)]"
    return [d + " #[enum_tools(as_str, from_str, into, MAX, MIN, next, next_back, try_from, Debug, Display, FromStr, Into, IntoStr, TryFrom, iter, names, range)]"
                " #[repr(i8)] pub enum Sib1 { A = -1, B = 0, C = 1 }",
            d + " #[enum_tools(as_str(mode = \"table\"), from_str(mode = \"table\"), into, MAX, MIN, next, next_back, try_from, Debug, Display, FromStr(mode = \"table\"), Into, IntoStr, TryFrom,"
                " iter(mode = \"table\"), names, range)] #[repr(u64)] pub enum Sib2 { P = 1, Q = 5, R = 6, S = 9, T = 10, U = 11, V = 20, W = 30, X = 40, Y = 50 }",
            d + " #[enum_tools(iter(mode = \"table_inline\"), names, try_from, next, Debug)] #[repr(u16)] pub enum Sib3 { K = 7, L = 9 }"]


def ctx_clash_trait():
    # a user trait, implemented for the enum and in scope at its definition, whose `&self` methods are named like the derived
    # by-value functions: method-call syntax on a `&Enum` receiver inside generated code would pick the trait's method
    # (@E@ is replaced by the enum's name by the renderer)
    return ["#[allow(dead_code)] pub trait Clash: ::core::marker::Sized { fn as_str(&self) -> &'static str { \"<clash>\" }"
            " fn next(&self) -> ::core::option::Option<Self> { ::core::option::Option::None }"
            " fn next_back(&self) -> ::core::option::Option<Self> { ::core::option::Option::None }"
            " fn into(&self) -> u8 { 77 } fn len(&self) -> usize { 99 } fn iter(&self) -> u8 { 1 } fn names(&self) -> u8 { 2 } }",
            "impl Clash for @E@ {}"]


def ctx_derive_alias():
    # other derive macros in scope under the names of the built-in derives (the only derive macro available offline is this
    # crate's own): a bare `#[derive(Clone)]` on a generated item would run the foreign macro
    names = ["Clone", "Copy", "Debug", "Default", "Eq", "Hash", "Ord", "PartialEq", "PartialOrd"]
    return ["#[allow(unused_imports)] use ::enum_tools::EnumTools as %s;" % n for n in names]


def ctx_forbid():
    # lint levels that cannot be overridden further down: an `#[allow(..)]` of the same lint on a generated item is then a
    # hard error (E0453), whether or not the item contains what the lint is about
    return ["#![forbid(unsafe_code)]"]


CONTEXTS = {
    "plain": [],
    "no_prelude": ["#![no_implicit_prelude]"],
    "types": ctx_types(),
    "traits": ctx_traits(),
    "mods": ctx_mods(),
    "macros": ctx_macros(),
    "values": ctx_values() + ctx_consts(),
    "siblings": ctx_siblings(),
    "clash_trait": ctx_clash_trait(),
    "derive_alias": ctx_derive_alias(),
    "forbid": ctx_forbid(),
    "all_types": ["#![no_implicit_prelude]"] + ctx_types() + ctx_mods() + ctx_macros() + ctx_consts(),
    "all_traits": ["#![no_implicit_prelude]"] + ctx_traits() + ctx_mods() + ctx_macros() + ctx_values() + ctx_consts(),
    # "no_std": the declaration lives in the #![no_std] library of the corpus package (see corpus_rt.write_crate)
    "no_std": [],
    "no_std_all": ["#![no_implicit_prelude]"] + ctx_types() + ctx_mods() + ctx_macros() + ctx_consts(),
}
ORDER = ["plain", "no_prelude", "types", "traits", "mods", "macros", "values", "siblings", "clash_trait", "derive_alias", "forbid", "all_types", "all_traits", "no_std", "no_std_all"]
