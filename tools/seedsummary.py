#!/usr/bin/env python3
"""Regenerates /verif/seeded/SUMMARY.md from the meta.json files written by tools/seedtest.py."""
import os, json, glob

rows = []
for f in sorted(glob.glob("/verif/seeded/*/meta.json")):
    m = json.load(open(f))
    sid = os.path.basename(os.path.dirname(f))
    conf = m.get("confirmed") or {}
    ok = all(conf.get(k) for k in ("applies", "demo_clean_passes", "demo_fails_with_change", "suite_passes_with_change"))
    rows.append((sid, m.get("breaks_property"), (m.get("base_commit") or "") + (" (+patch_head.diff)" if os.path.exists(os.path.join(os.path.dirname(f), "patch_head.diff")) else ""), "yes" if ok else "NO", ", ".join(m.get("caught_by") or []) or "—",
                 ", ".join(m.get("tool_errors") or []) or "—", (m.get("what") or "").replace("|", "/")[:150],
                 (m.get("needs") or "").replace("|", "/")[:170]))
caught = sum(1 for r in rows if r[4] != "—")
out = ["# Seeded changes", "",
       "Each change keeps the crate compiling and the repository's suite green and breaks the named property;",
       "`confirmed` = applies, demo passes on the clean tree, demo fails with the change, suite passes with the change",
       "(checked by `tools/seedtest.py` in a scratch worktree). `caught by` = quick checks that exit 1 on the changed tree.", "",
       f"{caught} of {len(rows)} changes are caught by at least one check.", "",
       "`base` = the /repo commit `patch.diff` is relative to; where a later `fix:` commit touched the same lines, `patch_head.diff` is",
       "the same change rebased onto the current HEAD (`git -C /repo apply seeded/<id>/patch_head.diff`).", "",
       "| id | breaks | base | confirmed | caught by | tool errors | what was changed | needs |", "|---|---|---|---|---|---|---|---|"]
for r in rows:
    out.append("| " + " | ".join(str(x) for x in r) + " |")
open("/verif/seeded/SUMMARY.md", "w").write("\n".join(out) + "\n")
print(f"{caught}/{len(rows)}")
